//! C10 — out-of-memory and allocation-option contract (the allocator's retry-loop kernel).
//!
//! Real code: `Allocator::{alloc_slow_inline, alloc_slow_with_options / alloc_with_options,
//! out_of_memory, alloc_slow_once_traced}` (trait default methods) instantiated on a harness
//! allocator whose `alloc_slow_once` plays `Space::acquire`: per attempt it either returns memory
//! or fails, and when it fails at a safepoint it "blocks for a GC" (counts it and lets the solver
//! choose whether that collection was an emergency collection).  The `AllocatorContext` comes from
//! the `verif_new` hook (stress testing off; the GC trigger is never consulted on this path).
//! Oracle: `Collection::out_of_memory` is called only if `allow_oom_call`, only after at least
//! one collection was attempted for this request and the retry after it failed too, at most once,
//! and the request then returns null;
//! with `at_safepoint == false` a failed attempt returns null at once, without a collection.

use crate::vm::*;
use crate::*;
use mmtk::util::alloc::{AllocationOptions, Allocator};
use mmtk::util::opaque_pointer::*;
use mmtk::util::Address;
use mmtk::verif_export::allocator::AllocatorContext;
use mmtk::verif_export::policy::Space;

pub struct HAlloc {
    ctx: &'static AllocatorContext<VmA>,
    src: *mut Src,
    attempts: usize,
    collections: usize,
    max_attempts: usize,
    /// Play an allocator (bump / large object) that first asks the real
    /// `handle_obvious_oom_request` and gives up on this attempt if it says so.
    ask_obvious: bool,
}

/// GC trigger policy of the harness: only the maximum heap size is ever asked for.
pub static mut MAX_HEAP_PAGES: usize = 0;
pub struct HPolicy;
impl mmtk::util::heap::GCTriggerPolicy<VmA> for HPolicy {
    fn is_gc_required(&self, _space_full: bool, _space: Option<mmtk::util::heap::SpaceStats<VmA>>, _plan: &dyn mmtk::Plan<VM = VmA>) -> bool {
        unimplemented!()
    }
    fn is_heap_full(&self, _plan: &dyn mmtk::Plan<VM = VmA>) -> bool {
        unimplemented!()
    }
    fn get_current_heap_size_in_pages(&self) -> usize {
        unimplemented!()
    }
    fn get_max_heap_size_in_pages(&self) -> usize {
        unsafe { MAX_HEAP_PAGES }
    }
    fn can_heap_size_grow(&self) -> bool {
        unimplemented!()
    }
}

impl Allocator<VmA> for HAlloc {
    fn get_tls(&self) -> VMThread {
        VMThread::UNINITIALIZED
    }
    fn get_space(&self) -> &'static dyn Space<VmA> {
        unimplemented!()
    }
    fn get_context(&self) -> &AllocatorContext<VmA> {
        self.ctx
    }
    fn does_thread_local_allocation(&self) -> bool {
        false
    }
    fn alloc(&mut self, size: usize, align: usize, offset: usize) -> Address {
        self.alloc_slow(size, align, offset)
    }
    /// The default method only wraps `alloc_slow_once` in two USDT probes (inline asm, which Kani
    /// cannot model): overridden by the plain call.
    fn alloc_slow_once_traced(&mut self, size: usize, align: usize, offset: usize) -> Address {
        self.alloc_slow_once(size, align, offset)
    }
    /// Plays `Space::acquire`.
    fn alloc_slow_once(&mut self, size: usize, _align: usize, _offset: usize) -> Address {
        let s = unsafe { &mut *self.src };
        self.attempts += 1;
        if self.ask_obvious {
            // as BumpAllocator::acquire_block and LargeObjectAllocator::alloc_slow_once do
            chk!(s, "a request larger than the maximum heap fails immediately: it is not retried", self.attempts <= 1);
            s.assume(self.attempts <= 1);
            if self.handle_obvious_oom_request(self.get_tls(), size) {
                return Address::ZERO;
            }
        }
        // bound: the request is resolved within `max_attempts` attempts
        s.assume(self.attempts <= self.max_attempts);
        let succeed = s.any_bool();
        if succeed {
            return unsafe { Address::from_usize(0x1000_0000) };
        }
        let opts = self.ctx.verif_alloc_options();
        if opts.at_safepoint {
            // block for a GC: the collection may or may not have been an emergency collection
            self.collections += 1;
            let emergency = s.any_bool();
            self.ctx.verif_set_emergency_collection(emergency);
        }
        Address::ZERO
    }
}

pub fn c10_retry_loop(s: &mut Src) {
    let ctx = AllocatorContext::<VmA>::verif_new();
    let opts = AllocationOptions { allow_overcommit: s.any_bool(), at_safepoint: s.any_bool(), allow_oom_call: s.any_bool() };
    // global state left behind by earlier requests / collections: arbitrary
    ctx.verif_set_emergency_collection(s.any_bool());
    ctx.verif_set_allocation_success(s.any_bool());
    unsafe {
        OOM_CALLS = 0;
    }
    let mut a = HAlloc { ctx, src: s as *mut Src, attempts: 0, collections: 0, max_attempts: 4, ask_obvious: false };
    let r = a.alloc_with_options(64, 8, 0, opts);
    let oom = unsafe { OOM_CALLS };
    chk!(s, "out_of_memory is never called when allow_oom_call is false", oom == 0 || opts.allow_oom_call);
    chk!(s, "out_of_memory is called only after a collection was attempted for the request", oom == 0 || a.collections >= 1);
    // "cannot be satisfied": the collection attempted for the request must be followed by a retry that
    // fails too; a request whose first collection may have made room is not out of memory (seed C10-c)
    chk!(s, "out_of_memory is declared only after a retry that followed a collection for this request failed as well", oom == 0 || a.attempts >= 2);
    chk!(s, "out_of_memory is called at most once per request", oom <= 1);
    chk!(s, "a request that reported out-of-memory returns null", oom == 0 || r.is_zero());
    chk!(s, "without a safepoint a failed attempt returns null at once, without a collection", opts.at_safepoint || (a.collections == 0 && (a.attempts == 1)));
    chk!(s, "a non-null result comes from a successful attempt", r.is_zero() || r.as_usize() == 0x1000_0000);
    chk!(s, "the per-request thrown-OOM flag is cleared when the request returns (it must not leak into the next request)", !ctx.verif_thrown_oom());
    chk!(s, "the allocation options are reset after the request", ctx.verif_alloc_options() == AllocationOptions::default());
    cov!(s, "out-of-memory reported", oom == 1);
    cov!(s, "succeeded after a collection", !r.is_zero() && a.collections >= 1);
    cov!(s, "returned null without a safepoint", !opts.at_safepoint && r.is_zero());
    cov!(s, "three attempts", a.attempts >= 3);
}

/// A request larger than the maximum heap ("obvious" out of memory): the real
/// `handle_obvious_oom_request` -> `GCTrigger::will_oom_on_alloc` says so on every attempt, no
/// collection can help.  The request must fail immediately for every option combination.
pub fn c10_obvious_oom(s: &mut Src) {
    let ctx = AllocatorContext::<VmA>::verif_new();
    ctx.verif_set_trigger_policy(Box::new(HPolicy));
    let opts = AllocationOptions { allow_overcommit: s.any_bool(), at_safepoint: s.any_bool(), allow_oom_call: s.any_bool() };
    ctx.verif_set_emergency_collection(s.any_bool());
    ctx.verif_set_allocation_success(s.any_bool());
    let max_pages = s.any_in(0, 1 << 30);
    let size = s.any_usize();
    s.assume(size >> 12 > max_pages);
    unsafe {
        OOM_CALLS = 0;
        MAX_HEAP_PAGES = max_pages;
    }
    let mut a = HAlloc { ctx, src: s as *mut Src, attempts: 0, collections: 0, max_attempts: 4, ask_obvious: true };
    let r = a.alloc_with_options(size, 8, 0, opts);
    let oom = unsafe { OOM_CALLS };
    chk!(s, "obvious OOM: the request returns null", r.is_zero());
    chk!(s, "obvious OOM: out_of_memory is called exactly when allow_oom_call is set", oom == if opts.allow_oom_call { 1 } else { 0 });
    chk!(s, "obvious OOM: no collection is attempted (none can help)", a.collections == 0);
    chk!(s, "obvious OOM: the per-request thrown-OOM flag is cleared when the request returns", !ctx.verif_thrown_oom());
    chk!(s, "obvious OOM: the allocation options are reset after the request", ctx.verif_alloc_options() == AllocationOptions::default());
    cov!(s, "obvious OOM without the call-back at a safepoint", !opts.allow_oom_call && opts.at_safepoint);
    cov!(s, "obvious OOM with the call-back", opts.allow_oom_call && oom == 1);
}

harnesses! {
    #[kani::unwind(6)] #[kani::stub(alloc::fmt::format, crate::env::stub_format)] c10_retry_loop; // timeout=900
    #[kani::unwind(6)] #[kani::stub(alloc::fmt::format, crate::env::stub_format)] c10_obvious_oom; // timeout=900
}
