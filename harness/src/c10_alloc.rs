//! C10 — out-of-memory and allocation-option contract (the allocator's retry-loop kernel).
//!
//! Real code: `Allocator::{alloc_slow_inline, alloc_slow_with_options / alloc_with_options,
//! out_of_memory, alloc_slow_once_traced}` (trait default methods) instantiated on a harness
//! allocator whose `alloc_slow_once` plays `Space::acquire`: per attempt it either returns memory
//! or fails, and when it fails at a safepoint it "blocks for a GC" (counts it and lets the solver
//! choose whether that collection was an emergency collection).  The `AllocatorContext` comes from
//! the `verif_new` hook (stress testing off; the GC trigger is never consulted on this path).
//! Oracle: `Collection::out_of_memory` is called only if `allow_oom_call`, only after at least
//! one collection was attempted for this request, at most once, and the request then returns null;
//! with `at_safepoint == false` a failed attempt returns null at once, without a collection.

use crate::vm::*;
use crate::*;
use mmtk::util::alloc::{AllocationOptions, Allocator};
use mmtk::util::opaque_pointer::*;
use mmtk::util::Address;
use mmtk::verif_export::allocator::AllocatorContext;
use mmtk::verif_export::policy::Space;

pub struct HAlloc {
    ctx: &'static AllocatorContext<VmA>,
    src: *mut Src,
    attempts: usize,
    collections: usize,
    max_attempts: usize,
}

impl Allocator<VmA> for HAlloc {
    fn get_tls(&self) -> VMThread {
        VMThread::UNINITIALIZED
    }
    fn get_space(&self) -> &'static dyn Space<VmA> {
        unimplemented!()
    }
    fn get_context(&self) -> &AllocatorContext<VmA> {
        self.ctx
    }
    fn does_thread_local_allocation(&self) -> bool {
        false
    }
    fn alloc(&mut self, size: usize, align: usize, offset: usize) -> Address {
        self.alloc_slow(size, align, offset)
    }
    /// The default method only wraps `alloc_slow_once` in two USDT probes (inline asm, which Kani
    /// cannot model): overridden by the plain call.
    fn alloc_slow_once_traced(&mut self, size: usize, align: usize, offset: usize) -> Address {
        self.alloc_slow_once(size, align, offset)
    }
    /// Plays `Space::acquire`.
    fn alloc_slow_once(&mut self, _size: usize, _align: usize, _offset: usize) -> Address {
        let s = unsafe { &mut *self.src };
        self.attempts += 1;
        // bound: the request is resolved within `max_attempts` attempts
        s.assume(self.attempts <= self.max_attempts);
        let succeed = s.any_bool();
        if succeed {
            return unsafe { Address::from_usize(0x1000_0000) };
        }
        let opts = self.ctx.verif_alloc_options();
        if opts.at_safepoint {
            // block for a GC: the collection may or may not have been an emergency collection
            self.collections += 1;
            let emergency = s.any_bool();
            self.ctx.verif_set_emergency_collection(emergency);
        }
        Address::ZERO
    }
}

pub fn c10_retry_loop(s: &mut Src) {
    let ctx = AllocatorContext::<VmA>::verif_new();
    let opts = AllocationOptions { allow_overcommit: s.any_bool(), at_safepoint: s.any_bool(), allow_oom_call: s.any_bool() };
    // global state left behind by earlier requests / collections: arbitrary
    ctx.verif_set_emergency_collection(s.any_bool());
    ctx.verif_set_allocation_success(s.any_bool());
    unsafe {
        OOM_CALLS = 0;
    }
    let mut a = HAlloc { ctx, src: s as *mut Src, attempts: 0, collections: 0, max_attempts: 4 };
    let r = a.alloc_with_options(64, 8, 0, opts);
    let oom = unsafe { OOM_CALLS };
    chk!(s, "out_of_memory is never called when allow_oom_call is false", oom == 0 || opts.allow_oom_call);
    chk!(s, "out_of_memory is called only after a collection was attempted for the request", oom == 0 || a.collections >= 1);
    chk!(s, "out_of_memory is called at most once per request", oom <= 1);
    chk!(s, "a request that reported out-of-memory returns null", oom == 0 || r.is_zero());
    chk!(s, "without a safepoint a failed attempt returns null at once, without a collection", opts.at_safepoint || (a.collections == 0 && (a.attempts == 1)));
    chk!(s, "a non-null result comes from a successful attempt", r.is_zero() || r.as_usize() == 0x1000_0000);
    chk!(s, "the per-request thrown-OOM flag is cleared when the request returns (it must not leak into the next request)", !ctx.verif_thrown_oom());
    chk!(s, "the allocation options are reset after the request", ctx.verif_alloc_options() == AllocationOptions::default());
    cov!(s, "out-of-memory reported", oom == 1);
    cov!(s, "succeeded after a collection", !r.is_zero() && a.collections >= 1);
    cov!(s, "returned null without a safepoint", !opts.at_safepoint && r.is_zero());
    cov!(s, "three attempts", a.attempts >= 3);
}

harnesses! {
    #[kani::unwind(6)] #[kani::stub(alloc::fmt::format, crate::env::stub_format)] c10_retry_loop; // timeout=900
}
