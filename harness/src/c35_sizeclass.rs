//! C35 — mark-sweep size classes fit every request.
//!
//! Real code: `mi_bin::<VM>`, `mi_bin_from_size`, `mi_wsize_from_size`, the real table built by
//! `new_empty_block_lists` (read through the `bin_sizes` hook), `get_maximum_aligned_size`,
//! `align_allocation_no_fill` (ties "fits" to the address the allocator returns inside a cell).

use crate::vm::*;
use crate::*;
use mmtk::util::Address;
use mmtk::verif_export::allocator::*;
use mmtk::verif_export::policy::native_ms::{bin_sizes, mi_bin_from_size, MAX_BIN, MAX_BIN_SIZE};
use mmtk::verif_export::policy::mi_bin;
use mmtk::vm::VMBinding;

fn fits<VM: VMBinding>(s: &mut Src) {
    let sizes = bin_sizes();
    let log_min = VM::MIN_ALIGNMENT.trailing_zeros() as usize;
    let log_max = VM::MAX_ALIGNMENT.trailing_zeros() as usize;
    let k = s.any_in(log_min, log_max);
    let align = 1usize << k;
    let size = s.any_usize();
    s.assume(size & (VM::MIN_ALIGNMENT - 1) == 0);
    s.assume(size <= MAX_BIN_SIZE);
    let padded = get_maximum_aligned_size::<VM>(size, align);
    s.assume(padded <= MAX_BIN_SIZE); // larger requests go to the large object space
    let bin = mi_bin::<VM>(size, align);
    chk!(s, "bin index is a valid size class", bin >= 1 && bin <= MAX_BIN);
    let cell = sizes[bin];
    chk!(s, "the chosen size class holds the padded request", cell >= padded);
    chk!(s, "the chosen size class is the smallest that holds the padded request", bin == 1 || sizes[bin - 1] < padded);
    // the object as the allocator places it inside a cell.  Cells are `block start + i * cell`
    // with a 64 KiB-aligned block start, so they are word-aligned, and aligned to the VM's minimum
    // alignment (which `get_maximum_aligned_size` takes as known) iff the cell size is a multiple
    // of it -- that is an obligation on the chosen class, checked here.
    // (a zero-size request may share the 8-byte class: nothing of it has to be aligned)
    chk!(s, "the cell size of a non-empty request is a multiple of the VM's minimum alignment (cells stay MIN_ALIGNMENT-aligned)", size == 0 || cell & (VM::MIN_ALIGNMENT - 1) == 0);
    let cell_align = if VM::MIN_ALIGNMENT > 8 && cell & (VM::MIN_ALIGNMENT - 1) == 0 { VM::MIN_ALIGNMENT } else { 8 };
    let cell_addr = s.any_usize();
    let offset = s.any_usize();
    s.assume(cell_addr & (cell_align - 1) == 0 && cell_addr >= 4096 && cell_addr < (1usize << 47));
    s.assume(offset & (VM::MIN_ALIGNMENT - 1) == 0 && offset < (1usize << 47));
    let start = align_allocation_no_fill::<VM>(unsafe { Address::from_usize(cell_addr) }, align, offset).as_usize();
    chk!(s, "the aligned object lies inside its cell", start >= cell_addr && start + size <= cell_addr + cell);
    // monotonicity
    let size2 = s.any_usize();
    s.assume(size2 & (VM::MIN_ALIGNMENT - 1) == 0 && size2 <= size);
    chk!(s, "bin index is monotone in the request size", mi_bin::<VM>(size2, align) <= bin);
    cov!(s, "largest size class", bin == MAX_BIN);
    cov!(s, "small exact class", bin >= 2 && bin <= 8 && cell == padded);
    cov!(s, "request padded for alignment", padded > size);
    cov!(s, "object not at the cell start", start > cell_addr);
}
pub fn c35_fits_vmb(s: &mut Src) {
    fits::<VmB>(s)
}
pub fn c35_fits_vmc(s: &mut Src) {
    fits::<VmC>(s)
}
pub fn c35_fits_vmd(s: &mut Src) {
    fits::<VmD>(s)
}
pub fn c35_fits_vma(s: &mut Src) {
    let sizes = bin_sizes();
    let size = s.any_usize();
    s.assume(size & 7 == 0 && size <= MAX_BIN_SIZE);
    let bin = mi_bin::<VmA>(size, 8);
    chk!(s, "VmA: bin index valid", bin >= 1 && bin <= MAX_BIN);
    chk!(s, "VmA: class holds the request", sizes[bin] >= size);
    chk!(s, "VmA: class is the smallest that holds it", bin == 1 || sizes[bin - 1] < size);
    cov!(s, "VmA: largest class", bin == MAX_BIN);
    cov!(s, "VmA: zero-size request", size == 0);
}

/// The table itself: strictly increasing word-multiple cell sizes, last = MAX_BIN_SIZE; and the
/// raw bin function on every byte size (not only aligned ones).
pub fn c35_table(s: &mut Src) {
    let sizes = bin_sizes();
    let i = s.any_in(1, MAX_BIN - 1);
    chk!(s, "cell sizes strictly increase from bin 1", sizes[i] < sizes[i + 1]);
    chk!(s, "cell sizes are word multiples", sizes[i] & 7 == 0 && sizes[i] >= 8 && sizes[i + 1] & 7 == 0);
    chk!(s, "the last class has MAX_BIN_SIZE", sizes[MAX_BIN] == MAX_BIN_SIZE);
    let size = s.any_usize();
    s.assume(size <= MAX_BIN_SIZE);
    let bin = mi_bin_from_size(size);
    chk!(s, "raw bin: valid", bin >= 1 && bin <= MAX_BIN);
    chk!(s, "raw bin: holds the size", sizes[bin] >= size);
    chk!(s, "raw bin: smallest such class", bin == 1 || sizes[bin - 1] < size);
    cov!(s, "odd byte size", size & 7 == 3 && size > 1000);
}

harnesses! {
    #[kani::unwind(52)] c35_fits_vma; // timeout=600
    #[kani::unwind(52)] c35_fits_vmb; // timeout=600
    #[kani::unwind(52)] c35_fits_vmc; // tier=thorough timeout=1200
    #[kani::unwind(52)] c35_fits_vmd; // tier=thorough timeout=1200
    #[kani::unwind(52)] c35_table; // timeout=600
}
