//! C27 — a raw-memory free list can grow to its configured maximum.
//!
//! Real code: `RawMemoryFreeList::{new, grow_freelist, grow_list_by_blocks, raise_high_water,
//! current_capacity, units_per_block, units_in_first_block, size_in_pages, default_block_size,
//! get_limit}` and the `FreeList` methods it uses (`alloc`, `set_sentinel`, `set_size`,
//! `add_to_free`).  The table lives in a real page-aligned 3-page buffer; `limit` is computed
//! exactly as `Map64::create_parent_freelist` computes it (`base + pages(size_in_pages)`).
//! Environment E5: `OS::dzmmap` is stubbed under Kani (records `(start, bytes)`, returns Ok);
//! natively the real `dzmmap` maps over the buffer with `replace = true`.

use crate::*;
use mmtk::util::constants::*;
use mmtk::util::os::*;
use mmtk::util::verif_freelist::*;
use mmtk::util::Address;

const PAGES: usize = 3;
#[repr(C, align(4096))]
// i32 entries (the element type the free list uses): a byte array here makes every table access a
// byte-extract/byte-update expression and exhausts the solver's memory.
pub struct FlTable(pub [i32; PAGES * 1024]);
pub static mut FLTABLE: FlTable = FlTable([0; PAGES * 1024]);

pub static mut MAPS: [(usize, usize); 4] = [(0, 0); 4];
pub static mut MAPS_N: usize = 0;

pub fn stub_dzmmap(start: Address, size: usize, _strategy: MmapStrategy, _annotation: &MmapAnnotation<'_>) -> MmapResult<Address> {
    unsafe {
        if MAPS_N < 4 {
            MAPS[MAPS_N] = (start.as_usize(), size);
        }
        MAPS_N += 1;
    }
    Ok(start)
}

/// `units` is concrete per harness (the table is a 12 KiB array; symbolic unit counts make every
/// table access a symbolic-index access and exhaust memory); block size, grain and the growth
/// steps stay symbolic.
fn grow(s: &mut Src, units: i32, three_pages: bool) {
    let base = unsafe { Address::from_mut_ptr(FLTABLE.0.as_mut_ptr() as *mut u8) };
    let heads = 1;
    let pages = RawMemoryFreeList::size_in_pages(units, heads);
    chk!(s, "size_in_pages covers units + heads + 1 table units", (pages as usize) << LOG_BYTES_IN_PAGE >= ((units + heads + 1) as usize) << 3 && pages >= 1 && pages as usize <= PAGES);
    let ppb = s.any_in(1, 2) as i32;
    s.assume(ppb <= pages); // default_block_size never exceeds the table size
    // grain: the whole list, half or a quarter of it
    let gsel = s.any_in(0, 2);
    s.assume(units % (1 << gsel) == 0);
    let grain = units >> gsel;
    let limit = base + ((pages as usize) << LOG_BYTES_IN_PAGE);
    let strategy = MmapStrategy::new(HugePageSupport::No, MmapProtection::ReadWrite, true, true);
    let mut l = RawMemoryFreeList::new(base, limit, ppb, units, grain, heads, strategy);
    // growth steps: multiples of the grain (the documented precondition of grow_list_by_blocks),
    // at most 4 grains per step so that the initialisation loop stays short
    let k1 = s.any_in(1, 4) as i32;
    let k2 = s.any_in(0, 3) as i32;
    let (g1, g2) = (k1 * grain, k2 * grain);
    s.assume(g1 + g2 <= units);
    unsafe {
        MAPS_N = 0;
    }
    let r1 = l.grow_freelist(g1);
    chk!(s, "growing within the configured maximum succeeds", r1);
    if g2 > 0 {
        let r2 = l.grow_freelist(g2);
        chk!(s, "a second growth step within the maximum succeeds", r2);
    }
    let over = l.grow_freelist(units - g1 - g2 + 1);
    chk!(s, "growing beyond the configured maximum is refused", !over);
    // every mapping lies inside [base, limit), mappings are consecutive from base
    #[cfg(kani)]
    {
        let n = unsafe { MAPS_N };
        let mut next = base.as_usize();
        let mut ok = n <= 4;
        let mut i = 0;
        while i < 4 {
            if i < n {
                let (st, sz) = unsafe { MAPS[i] };
                ok &= st == next && sz > 0 && st + sz <= limit.as_usize();
                next = st + sz;
            }
            i += 1;
        }
        chk!(s, "every mapping is inside [base, limit) and follows the previous one", ok);
        cov!(s, "two mappings were needed (when the table has three pages)", !three_pages || n >= 2);
    }
    // every unit up to the grown capacity is usable
    let total = g1 + g2;
    let per = if grain < g1 { grain } else { g1 };
    let mut got = 0;
    let mut k = 0;
    let mut all_ok = true;
    while k < 8 {
        if got + per <= total {
            let u = l.alloc(per);
            all_ok &= u != FAILURE && u >= 0 && u + per <= total;
            got += per;
        }
        k += 1;
    }
    chk!(s, "every grain of the grown list can be allocated", all_ok);
    if got == total {
        chk!(s, "a fully allocated list refuses further allocation", l.alloc(1) == FAILURE);
    }
    cov!(s, "table size is not a multiple of the block size and the last block is cut at the limit (three-page tables)", !three_pages || (pages % ppb != 0 && unsafe { MAPS_N } >= 2));
    cov!(s, "two growth steps (for even unit counts)", units % 2 == 1 || g2 > 0);
}

pub fn c27_grow_1534(s: &mut Src) {
    grow(s, 1534, true) // 3 pages exactly
}
pub fn c27_grow_1100(s: &mut Src) {
    grow(s, 1100, true) // 3 pages, partly used
}
pub fn c27_grow_1022(s: &mut Src) {
    grow(s, 1022, false) // 2 pages exactly
}
pub fn c27_grow_600(s: &mut Src) {
    grow(s, 600, false) // 2 pages, partly used
}
pub fn c27_grow_510(s: &mut Src) {
    grow(s, 510, false) // 1 page exactly
}
pub fn c27_grow_1024(s: &mut Src) {
    grow(s, 1024, true) // first unit count that needs a third page
}
pub fn c27_grow_1023(s: &mut Src) {
    grow(s, 1023, true) // units + heads + 1 fills two pages... plus one: three pages
}
pub fn c27_grow_512(s: &mut Src) {
    grow(s, 512, false)
}
pub fn c27_grow_511(s: &mut Src) {
    grow(s, 511, false) // last slot of the first page
}
pub fn c27_grow_6(s: &mut Src) {
    grow(s, 6, false)
}

harnesses! {
    #[kani::unwind(10)] #[kani::stub(alloc::fmt::format, crate::env::stub_format)] #[kani::stub(<mmtk::util::os::OS as mmtk::util::os::OSMemory>::dzmmap, crate::c27_rawgrow::stub_dzmmap)] c27_grow_1534; // tier=wip timeout=1200 jobs=3
    #[kani::unwind(10)] #[kani::stub(alloc::fmt::format, crate::env::stub_format)] #[kani::stub(<mmtk::util::os::OS as mmtk::util::os::OSMemory>::dzmmap, crate::c27_rawgrow::stub_dzmmap)] c27_grow_1100; // tier=wip timeout=1200 jobs=3
    #[kani::unwind(10)] #[kani::stub(alloc::fmt::format, crate::env::stub_format)] #[kani::stub(<mmtk::util::os::OS as mmtk::util::os::OSMemory>::dzmmap, crate::c27_rawgrow::stub_dzmmap)] c27_grow_1022; // tier=wip timeout=1200 jobs=3
    #[kani::unwind(10)] #[kani::stub(alloc::fmt::format, crate::env::stub_format)] #[kani::stub(<mmtk::util::os::OS as mmtk::util::os::OSMemory>::dzmmap, crate::c27_rawgrow::stub_dzmmap)] c27_grow_600; // tier=wip timeout=1200 jobs=3
    #[kani::unwind(10)] #[kani::stub(alloc::fmt::format, crate::env::stub_format)] #[kani::stub(<mmtk::util::os::OS as mmtk::util::os::OSMemory>::dzmmap, crate::c27_rawgrow::stub_dzmmap)] c27_grow_510; // tier=wip timeout=1200 jobs=3
    #[kani::unwind(10)] #[kani::stub(alloc::fmt::format, crate::env::stub_format)] #[kani::stub(<mmtk::util::os::OS as mmtk::util::os::OSMemory>::dzmmap, crate::c27_rawgrow::stub_dzmmap)] c27_grow_1024; // tier=wip timeout=1200 jobs=3
    #[kani::unwind(10)] #[kani::stub(alloc::fmt::format, crate::env::stub_format)] #[kani::stub(<mmtk::util::os::OS as mmtk::util::os::OSMemory>::dzmmap, crate::c27_rawgrow::stub_dzmmap)] c27_grow_1023; // tier=wip timeout=1200 jobs=3
    #[kani::unwind(10)] #[kani::stub(alloc::fmt::format, crate::env::stub_format)] #[kani::stub(<mmtk::util::os::OS as mmtk::util::os::OSMemory>::dzmmap, crate::c27_rawgrow::stub_dzmmap)] c27_grow_512; // tier=wip timeout=1200 jobs=3
    #[kani::unwind(10)] #[kani::stub(alloc::fmt::format, crate::env::stub_format)] #[kani::stub(<mmtk::util::os::OS as mmtk::util::os::OSMemory>::dzmmap, crate::c27_rawgrow::stub_dzmmap)] c27_grow_511; // tier=wip timeout=1200 jobs=3
    #[kani::unwind(10)] #[kani::stub(alloc::fmt::format, crate::env::stub_format)] #[kani::stub(<mmtk::util::os::OS as mmtk::util::os::OSMemory>::dzmmap, crate::c27_rawgrow::stub_dzmmap)] c27_grow_6; // tier=wip timeout=1200 jobs=3
}
