//! C27 — a raw-memory free list can grow to its configured maximum.
//!
//! Real code: `RawMemoryFreeList::{new, grow_freelist, grow_list_by_blocks, raise_high_water,
//! current_capacity, units_per_block, units_in_first_block, size_in_pages, default_block_size,
//! get_limit}` and the `FreeList` methods it uses (`alloc`, `set_sentinel`, `set_size`,
//! `add_to_free`).  The table lives in a real page-aligned 3-page buffer; `limit` is computed
//! exactly as `Map64::create_parent_freelist` computes it (`base + pages(size_in_pages)`).
//! Environment E5: `OS::dzmmap` is stubbed under Kani (records `(start, bytes)`, returns Ok);
//! natively the real `dzmmap` maps over the buffer with `replace = true`.

use crate::*;
use mmtk::util::constants::*;
use mmtk::util::os::*;
use mmtk::util::verif_freelist::*;
use mmtk::util::Address;

const PAGES: usize = 3;
#[repr(C, align(4096))]
// i32 entries (the element type the free list uses): a byte array here makes every table access a
// byte-extract/byte-update expression and exhausts the solver's memory.
pub struct FlTable(pub [i32; PAGES * 1024]);
pub static mut FLTABLE: FlTable = FlTable([0; PAGES * 1024]);

pub static mut MAPS: [(usize, usize); 4] = [(0, 0); 4];
pub static mut MAPS_N: usize = 0;

/// E2 for the free-list table: `get_entry`/`set_entry` (the only two places that touch the table
/// memory) are redirected to a typed static array; an access beyond what has been mapped so far is
/// reported (natively the real slice bounds check panics there).
pub fn mapped_entries() -> usize {
    let mut bytes = 0;
    let n = unsafe { MAPS_N };
    let mut i = 0;
    while i < 4 {
        if i < n {
            bytes += unsafe { MAPS[i].1 };
        }
        i += 1;
    }
    bytes >> 2
}
pub fn stub_get_entry(_l: &RawMemoryFreeList, index: i32) -> i32 {
    let i = index as usize;
    #[cfg(kani)]
    kani::assert(index >= 0 && i < mapped_entries() && i < PAGES * 1024, "free-list table access inside the mapped table");
    unsafe { FLTABLE.0[i] }
}
pub fn stub_set_entry(_l: &mut RawMemoryFreeList, index: i32, value: i32) {
    let i = index as usize;
    #[cfg(kani)]
    kani::assert(index >= 0 && i < mapped_entries() && i < PAGES * 1024, "free-list table access inside the mapped table");
    unsafe { FLTABLE.0[i] = value }
}

pub fn stub_dzmmap(start: Address, size: usize, _strategy: MmapStrategy, _annotation: &MmapAnnotation<'_>) -> MmapResult<Address> {
    unsafe {
        if MAPS_N < 4 {
            MAPS[MAPS_N] = (start.as_usize(), size);
        }
        MAPS_N += 1;
    }
    Ok(start)
}

/// `units` is concrete per harness (symbolic unit counts make every table access a symbolic-index
/// access into a 3072-entry array); block size, grain and the growth steps stay symbolic.
fn grow(s: &mut Src, units: i32, three_pages: bool, halves: bool, two_steps: bool) {
    let base = unsafe { Address::from_mut_ptr(FLTABLE.0.as_mut_ptr() as *mut u8) };
    let heads = 1;
    let pages = RawMemoryFreeList::size_in_pages(units, heads);
    chk!(s, "size_in_pages covers units + heads + 1 table units", (pages as usize) << LOG_BYTES_IN_PAGE >= ((units + heads + 1) as usize) << 3 && pages >= 1 && pages as usize <= PAGES);
    let ppb = s.any_in(1, 2) as i32;
    s.assume(ppb <= pages); // default_block_size never exceeds the table size
    // grain: the whole list or half of it (concrete per harness, like `units`: a symbolic grain
    // makes every table index symbolic and exhausts the solver's memory)
    let grain = if halves { units / 2 } else { units };
    let limit = base + ((pages as usize) << LOG_BYTES_IN_PAGE);
    let strategy = MmapStrategy::new(HugePageSupport::No, MmapProtection::ReadWrite, true, true);
    let mut l = RawMemoryFreeList::new(base, limit, ppb, units, grain, heads, strategy);
    unsafe {
        MAPS_N = 0;
    }
    // one step to the maximum, or (two grains) two steps of one grain each
    let g1 = if two_steps { grain } else { units };
    let r1 = l.grow_freelist(g1);
    chk!(s, "growing within the configured maximum succeeds", r1);
    if two_steps {
        let r2 = l.grow_freelist(grain);
        chk!(s, "a second growth step up to the maximum succeeds", r2);
    }
    let over = l.grow_freelist(1);
    chk!(s, "growing beyond the configured maximum is refused", !over);
    // every mapping lies inside [base, limit), mappings are consecutive from base
    #[cfg(kani)]
    {
        let n = unsafe { MAPS_N };
        let mut next = base.as_usize();
        let mut ok = n <= 4;
        let mut i = 0;
        while i < 4 {
            if i < n {
                let (st, sz) = unsafe { MAPS[i] };
                ok &= st == next && sz > 0 && st + sz <= limit.as_usize();
                next = st + sz;
            }
            i += 1;
        }
        chk!(s, "every mapping is inside [base, limit) and follows the previous one", ok);
        cov!(s, "two mappings were needed (two-step growth of a three-page table)", !(three_pages && two_steps) || n >= 2);
    }
    // every unit up to the grown capacity is usable: allocate grain by grain
    let a1 = l.alloc(grain);
    chk!(s, "the first grain of the grown list can be allocated", a1 != FAILURE && a1 >= 0 && a1 + grain <= units && l.size(a1) == grain);
    if halves {
        let a2 = l.alloc(grain);
        chk!(s, "the second grain can be allocated and is disjoint from the first", a2 != FAILURE && a2 >= 0 && a2 + grain <= units && (a2 + grain <= a1 || a1 + grain <= a2));
    }
    chk!(s, "a fully allocated list refuses further allocation", l.alloc(1) == FAILURE);
    cov!(s, "table size is not a multiple of the block size (three-page tables)", !three_pages || pages % ppb != 0);
    cov!(s, "both block sizes explored", ppb == 2 || pages == 1);
}

pub fn c27_grow_1534_one(s: &mut Src) {
    grow(s, 1534, true, false, false)
}
pub fn c27_grow_1534_halves(s: &mut Src) {
    grow(s, 1534, true, true, false)
}
pub fn c27_grow_1534_twostep(s: &mut Src) {
    grow(s, 1534, true, true, true)
}
pub fn c27_grow_1100_one(s: &mut Src) {
    grow(s, 1100, true, false, false)
}
pub fn c27_grow_1100_halves(s: &mut Src) {
    grow(s, 1100, true, true, false)
}
pub fn c27_grow_1100_twostep(s: &mut Src) {
    grow(s, 1100, true, true, true)
}
pub fn c27_grow_1024_one(s: &mut Src) {
    grow(s, 1024, true, false, false)
}
pub fn c27_grow_1024_halves(s: &mut Src) {
    grow(s, 1024, true, true, false)
}
pub fn c27_grow_1024_twostep(s: &mut Src) {
    grow(s, 1024, true, true, true)
}
pub fn c27_grow_1023_one(s: &mut Src) {
    grow(s, 1023, true, false, false)
}
pub fn c27_grow_1022_one(s: &mut Src) {
    grow(s, 1022, false, false, false)
}
pub fn c27_grow_1022_halves(s: &mut Src) {
    grow(s, 1022, false, true, false)
}
pub fn c27_grow_1022_twostep(s: &mut Src) {
    grow(s, 1022, false, true, true)
}
pub fn c27_grow_600_one(s: &mut Src) {
    grow(s, 600, false, false, false)
}
pub fn c27_grow_600_halves(s: &mut Src) {
    grow(s, 600, false, true, false)
}
pub fn c27_grow_600_twostep(s: &mut Src) {
    grow(s, 600, false, true, true)
}
pub fn c27_grow_512_one(s: &mut Src) {
    grow(s, 512, false, false, false)
}
pub fn c27_grow_512_halves(s: &mut Src) {
    grow(s, 512, false, true, false)
}
pub fn c27_grow_512_twostep(s: &mut Src) {
    grow(s, 512, false, true, true)
}
pub fn c27_grow_511_one(s: &mut Src) {
    grow(s, 511, false, false, false)
}
pub fn c27_grow_510_one(s: &mut Src) {
    grow(s, 510, false, false, false)
}
pub fn c27_grow_510_halves(s: &mut Src) {
    grow(s, 510, false, true, false)
}
pub fn c27_grow_510_twostep(s: &mut Src) {
    grow(s, 510, false, true, true)
}
pub fn c27_grow_6_one(s: &mut Src) {
    grow(s, 6, false, false, false)
}
pub fn c27_grow_6_halves(s: &mut Src) {
    grow(s, 6, false, true, false)
}
pub fn c27_grow_6_twostep(s: &mut Src) {
    grow(s, 6, false, true, true)
}
harnesses! {
    #[kani::unwind(6)] #[kani::stub(alloc::fmt::format, crate::env::stub_format)] #[kani::stub(<mmtk::util::os::OS as mmtk::util::os::OSMemory>::dzmmap, crate::c27_rawgrow::stub_dzmmap)] #[kani::stub(<mmtk::util::verif_freelist::RawMemoryFreeList as mmtk::util::verif_freelist::FreeList>::get_entry, crate::c27_rawgrow::stub_get_entry)] #[kani::stub(<mmtk::util::verif_freelist::RawMemoryFreeList as mmtk::util::verif_freelist::FreeList>::set_entry, crate::c27_rawgrow::stub_set_entry)] c27_grow_1534_one; // timeout=900 jobs=6
    #[kani::unwind(6)] #[kani::stub(alloc::fmt::format, crate::env::stub_format)] #[kani::stub(<mmtk::util::os::OS as mmtk::util::os::OSMemory>::dzmmap, crate::c27_rawgrow::stub_dzmmap)] #[kani::stub(<mmtk::util::verif_freelist::RawMemoryFreeList as mmtk::util::verif_freelist::FreeList>::get_entry, crate::c27_rawgrow::stub_get_entry)] #[kani::stub(<mmtk::util::verif_freelist::RawMemoryFreeList as mmtk::util::verif_freelist::FreeList>::set_entry, crate::c27_rawgrow::stub_set_entry)] c27_grow_1534_halves; // timeout=900 jobs=6
    #[kani::unwind(6)] #[kani::stub(alloc::fmt::format, crate::env::stub_format)] #[kani::stub(<mmtk::util::os::OS as mmtk::util::os::OSMemory>::dzmmap, crate::c27_rawgrow::stub_dzmmap)] #[kani::stub(<mmtk::util::verif_freelist::RawMemoryFreeList as mmtk::util::verif_freelist::FreeList>::get_entry, crate::c27_rawgrow::stub_get_entry)] #[kani::stub(<mmtk::util::verif_freelist::RawMemoryFreeList as mmtk::util::verif_freelist::FreeList>::set_entry, crate::c27_rawgrow::stub_set_entry)] c27_grow_1534_twostep; // timeout=900 jobs=6
    #[kani::unwind(6)] #[kani::stub(alloc::fmt::format, crate::env::stub_format)] #[kani::stub(<mmtk::util::os::OS as mmtk::util::os::OSMemory>::dzmmap, crate::c27_rawgrow::stub_dzmmap)] #[kani::stub(<mmtk::util::verif_freelist::RawMemoryFreeList as mmtk::util::verif_freelist::FreeList>::get_entry, crate::c27_rawgrow::stub_get_entry)] #[kani::stub(<mmtk::util::verif_freelist::RawMemoryFreeList as mmtk::util::verif_freelist::FreeList>::set_entry, crate::c27_rawgrow::stub_set_entry)] c27_grow_1100_one; // timeout=900 jobs=6
    #[kani::unwind(6)] #[kani::stub(alloc::fmt::format, crate::env::stub_format)] #[kani::stub(<mmtk::util::os::OS as mmtk::util::os::OSMemory>::dzmmap, crate::c27_rawgrow::stub_dzmmap)] #[kani::stub(<mmtk::util::verif_freelist::RawMemoryFreeList as mmtk::util::verif_freelist::FreeList>::get_entry, crate::c27_rawgrow::stub_get_entry)] #[kani::stub(<mmtk::util::verif_freelist::RawMemoryFreeList as mmtk::util::verif_freelist::FreeList>::set_entry, crate::c27_rawgrow::stub_set_entry)] c27_grow_1100_halves; // timeout=900 jobs=6
    #[kani::unwind(6)] #[kani::stub(alloc::fmt::format, crate::env::stub_format)] #[kani::stub(<mmtk::util::os::OS as mmtk::util::os::OSMemory>::dzmmap, crate::c27_rawgrow::stub_dzmmap)] #[kani::stub(<mmtk::util::verif_freelist::RawMemoryFreeList as mmtk::util::verif_freelist::FreeList>::get_entry, crate::c27_rawgrow::stub_get_entry)] #[kani::stub(<mmtk::util::verif_freelist::RawMemoryFreeList as mmtk::util::verif_freelist::FreeList>::set_entry, crate::c27_rawgrow::stub_set_entry)] c27_grow_1100_twostep; // timeout=900 jobs=6
    #[kani::unwind(6)] #[kani::stub(alloc::fmt::format, crate::env::stub_format)] #[kani::stub(<mmtk::util::os::OS as mmtk::util::os::OSMemory>::dzmmap, crate::c27_rawgrow::stub_dzmmap)] #[kani::stub(<mmtk::util::verif_freelist::RawMemoryFreeList as mmtk::util::verif_freelist::FreeList>::get_entry, crate::c27_rawgrow::stub_get_entry)] #[kani::stub(<mmtk::util::verif_freelist::RawMemoryFreeList as mmtk::util::verif_freelist::FreeList>::set_entry, crate::c27_rawgrow::stub_set_entry)] c27_grow_1024_one; // timeout=900 jobs=6
    #[kani::unwind(6)] #[kani::stub(alloc::fmt::format, crate::env::stub_format)] #[kani::stub(<mmtk::util::os::OS as mmtk::util::os::OSMemory>::dzmmap, crate::c27_rawgrow::stub_dzmmap)] #[kani::stub(<mmtk::util::verif_freelist::RawMemoryFreeList as mmtk::util::verif_freelist::FreeList>::get_entry, crate::c27_rawgrow::stub_get_entry)] #[kani::stub(<mmtk::util::verif_freelist::RawMemoryFreeList as mmtk::util::verif_freelist::FreeList>::set_entry, crate::c27_rawgrow::stub_set_entry)] c27_grow_1024_halves; // timeout=900 jobs=6
    #[kani::unwind(6)] #[kani::stub(alloc::fmt::format, crate::env::stub_format)] #[kani::stub(<mmtk::util::os::OS as mmtk::util::os::OSMemory>::dzmmap, crate::c27_rawgrow::stub_dzmmap)] #[kani::stub(<mmtk::util::verif_freelist::RawMemoryFreeList as mmtk::util::verif_freelist::FreeList>::get_entry, crate::c27_rawgrow::stub_get_entry)] #[kani::stub(<mmtk::util::verif_freelist::RawMemoryFreeList as mmtk::util::verif_freelist::FreeList>::set_entry, crate::c27_rawgrow::stub_set_entry)] c27_grow_1024_twostep; // timeout=900 jobs=6
    #[kani::unwind(6)] #[kani::stub(alloc::fmt::format, crate::env::stub_format)] #[kani::stub(<mmtk::util::os::OS as mmtk::util::os::OSMemory>::dzmmap, crate::c27_rawgrow::stub_dzmmap)] #[kani::stub(<mmtk::util::verif_freelist::RawMemoryFreeList as mmtk::util::verif_freelist::FreeList>::get_entry, crate::c27_rawgrow::stub_get_entry)] #[kani::stub(<mmtk::util::verif_freelist::RawMemoryFreeList as mmtk::util::verif_freelist::FreeList>::set_entry, crate::c27_rawgrow::stub_set_entry)] c27_grow_1023_one; // timeout=900 jobs=6
    #[kani::unwind(6)] #[kani::stub(alloc::fmt::format, crate::env::stub_format)] #[kani::stub(<mmtk::util::os::OS as mmtk::util::os::OSMemory>::dzmmap, crate::c27_rawgrow::stub_dzmmap)] #[kani::stub(<mmtk::util::verif_freelist::RawMemoryFreeList as mmtk::util::verif_freelist::FreeList>::get_entry, crate::c27_rawgrow::stub_get_entry)] #[kani::stub(<mmtk::util::verif_freelist::RawMemoryFreeList as mmtk::util::verif_freelist::FreeList>::set_entry, crate::c27_rawgrow::stub_set_entry)] c27_grow_1022_one; // timeout=900 jobs=6
    #[kani::unwind(6)] #[kani::stub(alloc::fmt::format, crate::env::stub_format)] #[kani::stub(<mmtk::util::os::OS as mmtk::util::os::OSMemory>::dzmmap, crate::c27_rawgrow::stub_dzmmap)] #[kani::stub(<mmtk::util::verif_freelist::RawMemoryFreeList as mmtk::util::verif_freelist::FreeList>::get_entry, crate::c27_rawgrow::stub_get_entry)] #[kani::stub(<mmtk::util::verif_freelist::RawMemoryFreeList as mmtk::util::verif_freelist::FreeList>::set_entry, crate::c27_rawgrow::stub_set_entry)] c27_grow_1022_halves; // timeout=900 jobs=6
    #[kani::unwind(6)] #[kani::stub(alloc::fmt::format, crate::env::stub_format)] #[kani::stub(<mmtk::util::os::OS as mmtk::util::os::OSMemory>::dzmmap, crate::c27_rawgrow::stub_dzmmap)] #[kani::stub(<mmtk::util::verif_freelist::RawMemoryFreeList as mmtk::util::verif_freelist::FreeList>::get_entry, crate::c27_rawgrow::stub_get_entry)] #[kani::stub(<mmtk::util::verif_freelist::RawMemoryFreeList as mmtk::util::verif_freelist::FreeList>::set_entry, crate::c27_rawgrow::stub_set_entry)] c27_grow_1022_twostep; // timeout=900 jobs=6
    #[kani::unwind(6)] #[kani::stub(alloc::fmt::format, crate::env::stub_format)] #[kani::stub(<mmtk::util::os::OS as mmtk::util::os::OSMemory>::dzmmap, crate::c27_rawgrow::stub_dzmmap)] #[kani::stub(<mmtk::util::verif_freelist::RawMemoryFreeList as mmtk::util::verif_freelist::FreeList>::get_entry, crate::c27_rawgrow::stub_get_entry)] #[kani::stub(<mmtk::util::verif_freelist::RawMemoryFreeList as mmtk::util::verif_freelist::FreeList>::set_entry, crate::c27_rawgrow::stub_set_entry)] c27_grow_600_one; // timeout=900 jobs=6
    #[kani::unwind(6)] #[kani::stub(alloc::fmt::format, crate::env::stub_format)] #[kani::stub(<mmtk::util::os::OS as mmtk::util::os::OSMemory>::dzmmap, crate::c27_rawgrow::stub_dzmmap)] #[kani::stub(<mmtk::util::verif_freelist::RawMemoryFreeList as mmtk::util::verif_freelist::FreeList>::get_entry, crate::c27_rawgrow::stub_get_entry)] #[kani::stub(<mmtk::util::verif_freelist::RawMemoryFreeList as mmtk::util::verif_freelist::FreeList>::set_entry, crate::c27_rawgrow::stub_set_entry)] c27_grow_600_halves; // timeout=900 jobs=6
    #[kani::unwind(6)] #[kani::stub(alloc::fmt::format, crate::env::stub_format)] #[kani::stub(<mmtk::util::os::OS as mmtk::util::os::OSMemory>::dzmmap, crate::c27_rawgrow::stub_dzmmap)] #[kani::stub(<mmtk::util::verif_freelist::RawMemoryFreeList as mmtk::util::verif_freelist::FreeList>::get_entry, crate::c27_rawgrow::stub_get_entry)] #[kani::stub(<mmtk::util::verif_freelist::RawMemoryFreeList as mmtk::util::verif_freelist::FreeList>::set_entry, crate::c27_rawgrow::stub_set_entry)] c27_grow_600_twostep; // timeout=900 jobs=6
    #[kani::unwind(6)] #[kani::stub(alloc::fmt::format, crate::env::stub_format)] #[kani::stub(<mmtk::util::os::OS as mmtk::util::os::OSMemory>::dzmmap, crate::c27_rawgrow::stub_dzmmap)] #[kani::stub(<mmtk::util::verif_freelist::RawMemoryFreeList as mmtk::util::verif_freelist::FreeList>::get_entry, crate::c27_rawgrow::stub_get_entry)] #[kani::stub(<mmtk::util::verif_freelist::RawMemoryFreeList as mmtk::util::verif_freelist::FreeList>::set_entry, crate::c27_rawgrow::stub_set_entry)] c27_grow_512_one; // timeout=900 jobs=6
    #[kani::unwind(6)] #[kani::stub(alloc::fmt::format, crate::env::stub_format)] #[kani::stub(<mmtk::util::os::OS as mmtk::util::os::OSMemory>::dzmmap, crate::c27_rawgrow::stub_dzmmap)] #[kani::stub(<mmtk::util::verif_freelist::RawMemoryFreeList as mmtk::util::verif_freelist::FreeList>::get_entry, crate::c27_rawgrow::stub_get_entry)] #[kani::stub(<mmtk::util::verif_freelist::RawMemoryFreeList as mmtk::util::verif_freelist::FreeList>::set_entry, crate::c27_rawgrow::stub_set_entry)] c27_grow_512_halves; // timeout=900 jobs=6
    #[kani::unwind(6)] #[kani::stub(alloc::fmt::format, crate::env::stub_format)] #[kani::stub(<mmtk::util::os::OS as mmtk::util::os::OSMemory>::dzmmap, crate::c27_rawgrow::stub_dzmmap)] #[kani::stub(<mmtk::util::verif_freelist::RawMemoryFreeList as mmtk::util::verif_freelist::FreeList>::get_entry, crate::c27_rawgrow::stub_get_entry)] #[kani::stub(<mmtk::util::verif_freelist::RawMemoryFreeList as mmtk::util::verif_freelist::FreeList>::set_entry, crate::c27_rawgrow::stub_set_entry)] c27_grow_512_twostep; // timeout=900 jobs=6
    #[kani::unwind(6)] #[kani::stub(alloc::fmt::format, crate::env::stub_format)] #[kani::stub(<mmtk::util::os::OS as mmtk::util::os::OSMemory>::dzmmap, crate::c27_rawgrow::stub_dzmmap)] #[kani::stub(<mmtk::util::verif_freelist::RawMemoryFreeList as mmtk::util::verif_freelist::FreeList>::get_entry, crate::c27_rawgrow::stub_get_entry)] #[kani::stub(<mmtk::util::verif_freelist::RawMemoryFreeList as mmtk::util::verif_freelist::FreeList>::set_entry, crate::c27_rawgrow::stub_set_entry)] c27_grow_511_one; // timeout=900 jobs=6
    #[kani::unwind(6)] #[kani::stub(alloc::fmt::format, crate::env::stub_format)] #[kani::stub(<mmtk::util::os::OS as mmtk::util::os::OSMemory>::dzmmap, crate::c27_rawgrow::stub_dzmmap)] #[kani::stub(<mmtk::util::verif_freelist::RawMemoryFreeList as mmtk::util::verif_freelist::FreeList>::get_entry, crate::c27_rawgrow::stub_get_entry)] #[kani::stub(<mmtk::util::verif_freelist::RawMemoryFreeList as mmtk::util::verif_freelist::FreeList>::set_entry, crate::c27_rawgrow::stub_set_entry)] c27_grow_510_one; // timeout=900 jobs=6
    #[kani::unwind(6)] #[kani::stub(alloc::fmt::format, crate::env::stub_format)] #[kani::stub(<mmtk::util::os::OS as mmtk::util::os::OSMemory>::dzmmap, crate::c27_rawgrow::stub_dzmmap)] #[kani::stub(<mmtk::util::verif_freelist::RawMemoryFreeList as mmtk::util::verif_freelist::FreeList>::get_entry, crate::c27_rawgrow::stub_get_entry)] #[kani::stub(<mmtk::util::verif_freelist::RawMemoryFreeList as mmtk::util::verif_freelist::FreeList>::set_entry, crate::c27_rawgrow::stub_set_entry)] c27_grow_510_halves; // timeout=900 jobs=6
    #[kani::unwind(6)] #[kani::stub(alloc::fmt::format, crate::env::stub_format)] #[kani::stub(<mmtk::util::os::OS as mmtk::util::os::OSMemory>::dzmmap, crate::c27_rawgrow::stub_dzmmap)] #[kani::stub(<mmtk::util::verif_freelist::RawMemoryFreeList as mmtk::util::verif_freelist::FreeList>::get_entry, crate::c27_rawgrow::stub_get_entry)] #[kani::stub(<mmtk::util::verif_freelist::RawMemoryFreeList as mmtk::util::verif_freelist::FreeList>::set_entry, crate::c27_rawgrow::stub_set_entry)] c27_grow_510_twostep; // timeout=900 jobs=6
    #[kani::unwind(6)] #[kani::stub(alloc::fmt::format, crate::env::stub_format)] #[kani::stub(<mmtk::util::os::OS as mmtk::util::os::OSMemory>::dzmmap, crate::c27_rawgrow::stub_dzmmap)] #[kani::stub(<mmtk::util::verif_freelist::RawMemoryFreeList as mmtk::util::verif_freelist::FreeList>::get_entry, crate::c27_rawgrow::stub_get_entry)] #[kani::stub(<mmtk::util::verif_freelist::RawMemoryFreeList as mmtk::util::verif_freelist::FreeList>::set_entry, crate::c27_rawgrow::stub_set_entry)] c27_grow_6_one; // timeout=900 jobs=6
    #[kani::unwind(6)] #[kani::stub(alloc::fmt::format, crate::env::stub_format)] #[kani::stub(<mmtk::util::os::OS as mmtk::util::os::OSMemory>::dzmmap, crate::c27_rawgrow::stub_dzmmap)] #[kani::stub(<mmtk::util::verif_freelist::RawMemoryFreeList as mmtk::util::verif_freelist::FreeList>::get_entry, crate::c27_rawgrow::stub_get_entry)] #[kani::stub(<mmtk::util::verif_freelist::RawMemoryFreeList as mmtk::util::verif_freelist::FreeList>::set_entry, crate::c27_rawgrow::stub_set_entry)] c27_grow_6_halves; // timeout=900 jobs=6
    #[kani::unwind(6)] #[kani::stub(alloc::fmt::format, crate::env::stub_format)] #[kani::stub(<mmtk::util::os::OS as mmtk::util::os::OSMemory>::dzmmap, crate::c27_rawgrow::stub_dzmmap)] #[kani::stub(<mmtk::util::verif_freelist::RawMemoryFreeList as mmtk::util::verif_freelist::FreeList>::get_entry, crate::c27_rawgrow::stub_get_entry)] #[kani::stub(<mmtk::util::verif_freelist::RawMemoryFreeList as mmtk::util::verif_freelist::FreeList>::set_entry, crate::c27_rawgrow::stub_set_entry)] c27_grow_6_twostep; // timeout=900 jobs=6
}
