//! C31 — address-to-space resolution is total and exact (index arithmetic).
//!
//! Real code: `SFTSpaceMap::{new, has_sft_entry, addr_to_index, index_to_space_range}`,
//! `Map64::{new, insert, get_descriptor_for_address, space_index, is_space_start}`,
//! `SpaceDescriptor::create_descriptor_from_heap_range`, default 64-bit `VMLayout`.
//! The table *contents* of the SFT map (`portable_atomic::AtomicU128`, inline asm) are not
//! executed; the claim is about indices: a lookup that passes `has_sft_entry` stays inside the
//! table (the following `get_unchecked` would otherwise be undefined behaviour), the entry range
//! is exactly spaces 1..=15, the VM map answers every address without panicking, and both maps
//! agree on the space index.

use crate::*;
use mmtk::util::heap::vm_layout::*;
use mmtk::util::Address;
use mmtk::verif_export::heap::{Map64, SpaceDescriptor, VMMap};
use mmtk::verif_export::policy::{SFTMap, SFTSpaceMap, SFTSparseChunkMap};

fn addr(a: usize) -> Address {
    unsafe { Address::from_usize(a) }
}

pub fn c31_sft_space_map(s: &mut Src) {
    verif_set_vm_layout(VMLayout::new_64bit());
    let m = SFTSpaceMap::new();
    let a = s.any_usize();
    let has = m.has_sft_entry(addr(a));
    let idx = SFTSpaceMap::verif_addr_to_index(addr(a));
    let ext = vm_layout().log_space_extent;
    chk!(s, "every address maps to an index inside the SFT table", idx < m.verif_table_len());
    chk!(s, "has_sft_entry holds exactly for addresses of spaces 1..=15", has == (a >= (1usize << ext) && a < (16usize << ext)));
    if has {
        chk!(s, "an address with an entry is inside the space range of its index", {
            let (lo, hi) = SFTSpaceMap::verif_index_to_space_range(idx);
            a >= lo.as_usize() && a < hi.as_usize()
        });
        chk!(s, "SFT index equals the address's space index", idx == a >> ext && idx >= 1 && idx <= 15);
    }
    cov!(s, "address below the heap", a < (1usize << ext));
    cov!(s, "address in the last space", a >> ext == 15);
    cov!(s, "address above the heap", a > (17usize << ext));
    cov!(s, "address with bits above the mask", a >> 47 != 0);
}

/// `SFTSparseChunkMap` (one entry per chunk; used when spaces are discontiguous): an address is said
/// to have an entry exactly when its chunk index is inside the table that `new()` allocates
/// (`vm_layout().max_chunks()` entries) — `get_checked` indexes the table unchecked after this test.
pub fn c31_sft_sparse_chunk_map(s: &mut Src) {
    verif_set_vm_layout(VMLayout::new_64bit());
    let m = SFTSparseChunkMap::verif_without_table();
    let a = s.any_usize();
    let has = m.has_sft_entry(addr(a));
    let table_len = vm_layout().max_chunks();
    let chunk = a >> LOG_BYTES_IN_CHUNK;
    chk!(s, "an address with an entry indexes inside the sparse chunk table", !has || chunk < table_len);
    chk!(s, "every address whose chunk is inside the table has an entry", has || chunk >= table_len);
    cov!(s, "address in the first chunk beyond the table", chunk == table_len);
    cov!(s, "address in the last chunk of the table", chunk + 1 == table_len);
    core::mem::forget(m);
}

pub fn c31_map64_descriptor(s: &mut Src) {
    verif_set_vm_layout(VMLayout::new_64bit());
    let ext = vm_layout().log_space_extent;
    let m = Map64::new();
    let i = s.any_in(1, 15);
    let start = i << ext;
    let chunks = s.any_in(2, 1usize << (ext - LOG_BYTES_IN_CHUNK));
    let extent = chunks << LOG_BYTES_IN_CHUNK;
    let d = SpaceDescriptor::create_descriptor_from_heap_range(addr(start), addr(start + extent));
    m.insert(addr(start), extent, d);
    let a = s.any_usize();
    let got = m.get_descriptor_for_address(addr(a));
    let inside = a >= start && a < ((i + 1) << ext);
    chk!(s, "an address of the inserted space resolves to its descriptor", !inside || got == d);
    chk!(s, "any other address resolves to the uninitialized descriptor", inside || got == SpaceDescriptor::UNINITIALIZED);
    chk!(s, "the descriptor's index agrees with the SFT index of the address", !inside || got.get_index() == SFTSpaceMap::verif_addr_to_index(addr(a)));
    cov!(s, "address in the inserted space", inside);
    cov!(s, "address above the last space", a >= (16usize << ext));
    cov!(s, "address above the heap end", a > vm_layout().heap_end.as_usize());
}

harnesses! {
    #[kani::unwind(34)] #[kani::stub(alloc::fmt::format, crate::env::stub_format)] c31_sft_space_map; // timeout=600
    #[kani::unwind(34)] #[kani::stub(alloc::fmt::format, crate::env::stub_format)] c31_map64_descriptor; // timeout=600
    #[kani::unwind(34)] #[kani::stub(alloc::fmt::format, crate::env::stub_format)] c31_sft_sparse_chunk_map; // timeout=600
}
