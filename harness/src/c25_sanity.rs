//! C25 — the side-metadata sanity check rejects exactly the overlapping spec sets.
//!
//! Real code: `sanity::{verify_no_overlap_contiguous, verify_global_specs}` (through the
//! `verif::sanity` hooks, which only turn the `Result` into a bool), `metadata_address_range_size`,
//! `SideMetadataSpec::get_starting_address`, `global_side_metadata_base_address`.
//! Oracle: interval overlap of `[base+offset_i, base+offset_i+range_size_i)`.

use crate::env::*;
use crate::*;
use mmtk::util::metadata::side_metadata::verif::{metadata_address_range_size, sanity};
use mmtk::util::metadata::side_metadata::SideMetadataSpec;

fn any_spec(s: &mut Src) -> SideMetadataSpec {
    let offset = s.any_usize();
    let bits = s.any_usize();
    let region = s.any_usize();
    s.assume(offset < (1usize << 46));
    s.assume(bits <= 6 && region <= 22);
    // worst-case-ratio precondition of the layout: at most half as much metadata as data
    s.assume(3 + region >= bits + 1);
    spec(offset, bits, region)
}

fn overlap(a: &SideMetadataSpec, b: &SideMetadataSpec) -> bool {
    // offsets are relative to the same base, so the base cancels out
    let (a0, a1) = (a.offset, a.offset + metadata_address_range_size(a));
    let (b0, b1) = (b.offset, b.offset + metadata_address_range_size(b));
    a0 < b1 && b0 < a1
}

pub fn c25_pair(s: &mut Src) {
    let base = s.any_usize();
    s.assume(base < (1usize << 46));
    set_side_base(base);
    let a = any_spec(s);
    let b = any_spec(s);
    let accepted = sanity::verify_no_overlap_contiguous(&a, &b);
    let ov = overlap(&a, &b);
    chk!(s, "overlapping pair is rejected", !(ov && accepted));
    chk!(s, "disjoint pair is accepted", !(!ov && !accepted));
    cov!(s, "overlapping pair", ov);
    cov!(s, "disjoint pair", !ov);
    cov!(s, "adjacent pair (end of one == start of the other)", a.offset + metadata_address_range_size(&a) == b.offset);
    cov!(s, "non-zero base", base != 0);
}

/// `verify_global_specs` over a 3-element set: rejects iff some pair of distinct specs overlaps
/// (or the total size exceeds the global budget).
pub fn c25_global_set(s: &mut Src) {
    let base = s.any_usize();
    s.assume(base < (1usize << 46));
    set_side_base(base);
    let specs = [any_spec(s), any_spec(s), any_spec(s)];
    let accepted = sanity::verify_global_specs(&specs);
    let size_ok = sanity::verify_global_specs_total_size(&specs);
    let mut any_overlap = false;
    let mut i = 0;
    while i < 3 {
        let mut j = 0;
        while j < 3 {
            // identical specs are one spec (the checker skips `spec_1 == spec_2`)
            let same = specs[i].offset == specs[j].offset
                && specs[i].log_num_of_bits == specs[j].log_num_of_bits
                && specs[i].log_bytes_in_region == specs[j].log_bytes_in_region;
            if i != j && !same && overlap(&specs[i], &specs[j]) {
                any_overlap = true;
            }
            j += 1;
        }
        i += 1;
    }
    chk!(s, "set with an overlapping pair is rejected", !(any_overlap && accepted));
    chk!(s, "disjoint set within the size budget is accepted", !(!any_overlap && size_ok && !accepted));
    cov!(s, "set rejected for overlap", any_overlap && size_ok);
    cov!(s, "set accepted", accepted);
}

harnesses! {
    #[kani::unwind(2)] #[kani::stub(alloc::fmt::format, crate::env::stub_format)] c25_pair;
    #[kani::unwind(8)] #[kani::stub(alloc::fmt::format, crate::env::stub_format)] c25_global_set;
}
