//! C23 — in-header metadata fields are isolated and report their own previous value.
//!
//! Real code: `HeaderMetadataSpec::{load, load_atomic, store, store_atomic, compare_exchange,
//! fetch_add, fetch_sub, fetch_and, fetch_or, fetch_update}` on a real 24-byte header buffer
//! (no stubs).  Oracle: the field is bits `[bit_offset, bit_offset+n)` of the little-endian
//! buffer counted from the header address (the middle word of the buffer); every op returns the
//! previous field value and changes nothing but the field.

use crate::*;
use atomic::Ordering;
use mmtk::util::metadata::header_metadata::HeaderMetadataSpec;
use mmtk::util::metadata::MetadataValue;
use mmtk::util::Address;

#[repr(C, align(8))]
pub struct Hdr(pub [u8; 24]);

impl Hdr {
    pub fn any(s: &mut Src) -> Hdr {
        Hdr(s.any_bytes::<24>())
    }
    /// The header address is the middle word so that bit offsets in [-64, 64) stay inside.
    pub fn header(&mut self) -> Address {
        Address::from_mut_ptr(self.0.as_mut_ptr()) + 8usize
    }
    pub fn words(&self) -> [u64; 3] {
        unsafe { *(self.0.as_ptr() as *const [u64; 3]) }
    }
}

/// Reference model: bit `p` (0..192) of the buffer viewed as a little-endian bit string.
fn ref_get(w: [u64; 3], bit_offset: isize, n: usize) -> u64 {
    let p = (64 + bit_offset) as usize;
    let word = w[p >> 6];
    let sh = p & 63;
    let v = word >> sh;
    if n == 64 {
        v
    } else {
        v & ((1u64 << n) - 1)
    }
}

fn ref_set(mut w: [u64; 3], bit_offset: isize, n: usize, val: u64) -> [u64; 3] {
    let p = (64 + bit_offset) as usize;
    let sh = p & 63;
    let m = if n == 64 { !0u64 } else { ((1u64 << n) - 1) << sh };
    let i = p >> 6;
    w[i] = (w[i] & !m) | ((val << sh) & m);
    w
}

/// Fieldwise comparison (array `==` is a memcmp loop under CBMC).
fn eq3(a: [u64; 3], b: [u64; 3]) -> bool {
    a[0] == b[0] && a[1] == b[1] && a[2] == b[2]
}

/// Arbitrary sub-byte spec: 1..=7 bits that do not straddle a byte (the code's own precondition,
/// `assert_spec`), anywhere in [-64, 64).
fn any_bits_spec(s: &mut Src) -> HeaderMetadataSpec {
    let bit_offset = s.any_isize();
    let num_of_bits = s.any_usize();
    s.assume(bit_offset >= -64 && bit_offset < 64);
    s.assume(num_of_bits >= 1 && num_of_bits <= 7);
    s.assume((bit_offset >> 3) == ((bit_offset + num_of_bits as isize - 1) >> 3));
    HeaderMetadataSpec {
        bit_offset,
        num_of_bits,
    }
}

fn any_val(s: &mut Src, n: usize) -> u64 {
    let v = s.any_u64();
    if n < 64 {
        s.assume(v < (1u64 << n));
    }
    v
}

fn witnesses(s: &mut Src, spec: &HeaderMetadataSpec, pre: [u64; 3]) {
    cov!(s, "negative bit offset", spec.bit_offset < 0);
    cov!(s, "non-negative bit offset", spec.bit_offset >= 0);
    let without = ref_set(pre, spec.bit_offset, spec.num_of_bits, 0);
    cov!(s, "neighbouring header bits non-zero", (without[0] | without[1] | without[2]) != 0);
}

// ---------------------------------------------------------------- sub-byte fields (T = u8)

pub fn c23_bits_load(s: &mut Src) {
    let spec = any_bits_spec(s);
    let mut h = Hdr::any(s);
    let pre = h.words();
    let atomic = s.any_bool();
    let r: u8 = if atomic {
        spec.load_atomic::<u8>(h.header(), None, Ordering::SeqCst)
    } else {
        unsafe { spec.load::<u8>(h.header(), None) }
    };
    chk!(s, "load returns the field", r as u64 == ref_get(pre, spec.bit_offset, spec.num_of_bits));
    chk!(s, "load changes nothing", eq3(h.words(), pre));
    witnesses(s, &spec, pre);
}

pub fn c23_bits_store(s: &mut Src) {
    let spec = any_bits_spec(s);
    let mut h = Hdr::any(s);
    let pre = h.words();
    let v = any_val(s, spec.num_of_bits);
    let atomic = s.any_bool();
    if atomic {
        spec.store_atomic::<u8>(h.header(), v as u8, None, Ordering::SeqCst)
    } else {
        unsafe { spec.store::<u8>(h.header(), v as u8, None) }
    };
    chk!(s, "store writes exactly the field", eq3(h.words(), ref_set(pre, spec.bit_offset, spec.num_of_bits, v)));
    witnesses(s, &spec, pre);
}

pub fn c23_bits_cas(s: &mut Src) {
    let spec = any_bits_spec(s);
    let mut h = Hdr::any(s);
    let pre = h.words();
    let n = spec.num_of_bits;
    let old = any_val(s, n);
    let new = any_val(s, n);
    let field = ref_get(pre, spec.bit_offset, n);
    let r = spec.compare_exchange::<u8>(h.header(), old as u8, new as u8, None, Ordering::SeqCst, Ordering::SeqCst);
    chk!(s, "sub-byte CAS succeeds iff field == old", r.is_ok() == (field == old));
    match r {
        Ok(v) => {
            chk!(s, "sub-byte CAS success stores new into the field only", eq3(h.words(), ref_set(pre, spec.bit_offset, n, new)));
            chk!(s, "sub-byte CAS Ok value is the previous field value", v as u64 == field);
        }
        Err(v) => {
            chk!(s, "sub-byte CAS failure changes nothing", eq3(h.words(), pre));
            chk!(s, "sub-byte CAS Err value is the previous field value", v as u64 == field);
        }
    }
    cov!(s, "CAS succeeded", r.is_ok());
    cov!(s, "CAS failed", r.is_err());
    witnesses(s, &spec, pre);
}

/// 0 add, 1 sub, 2 and, 3 or
fn bits_fetch_op(s: &mut Src, op: u8) {
    let spec = any_bits_spec(s);
    let mut h = Hdr::any(s);
    let pre = h.words();
    let n = spec.num_of_bits;
    let v = any_val(s, n);
    let field = ref_get(pre, spec.bit_offset, n);
    let m = (1u64 << n) - 1;
    let (r, expect) = match op {
        0 => (spec.fetch_add::<u8>(h.header(), v as u8, Ordering::SeqCst), field.wrapping_add(v) & m),
        1 => (spec.fetch_sub::<u8>(h.header(), v as u8, Ordering::SeqCst), field.wrapping_sub(v) & m),
        2 => (spec.fetch_and::<u8>(h.header(), v as u8, Ordering::SeqCst), field & v),
        _ => (spec.fetch_or::<u8>(h.header(), v as u8, Ordering::SeqCst), field | v),
    };
    chk!(s, "fetch-op returns the previous field value", r as u64 == field);
    chk!(s, "fetch-op updates exactly the field (wrapping in the field width)", eq3(h.words(), ref_set(pre, spec.bit_offset, n, expect)));
    cov!(s, "result wrapped in the field width", if op == 0 { field + v > m } else { v > field });
    witnesses(s, &spec, pre);
}
pub fn c23_bits_fetch_add(s: &mut Src) {
    bits_fetch_op(s, 0)
}
pub fn c23_bits_fetch_sub(s: &mut Src) {
    bits_fetch_op(s, 1)
}
pub fn c23_bits_fetch_and(s: &mut Src) {
    let spec = any_bits_spec(s);
    let mut h = Hdr::any(s);
    let pre = h.words();
    let n = spec.num_of_bits;
    let v = any_val(s, n);
    let field = ref_get(pre, spec.bit_offset, n);
    let r = spec.fetch_and::<u8>(h.header(), v as u8, Ordering::SeqCst);
    chk!(s, "fetch_and returns the previous field value", r as u64 == field);
    chk!(s, "fetch_and updates exactly the field", eq3(h.words(), ref_set(pre, spec.bit_offset, n, field & v)));
    witnesses(s, &spec, pre);
}
pub fn c23_bits_fetch_or(s: &mut Src) {
    let spec = any_bits_spec(s);
    let mut h = Hdr::any(s);
    let pre = h.words();
    let n = spec.num_of_bits;
    let v = any_val(s, n);
    let field = ref_get(pre, spec.bit_offset, n);
    let r = spec.fetch_or::<u8>(h.header(), v as u8, Ordering::SeqCst);
    chk!(s, "fetch_or returns the previous field value", r as u64 == field);
    chk!(s, "fetch_or updates exactly the field", eq3(h.words(), ref_set(pre, spec.bit_offset, n, field | v)));
    witnesses(s, &spec, pre);
}

pub fn c23_bits_fetch_update(s: &mut Src) {
    let spec = any_bits_spec(s);
    let mut h = Hdr::any(s);
    let pre = h.words();
    let n = spec.num_of_bits;
    let m = ((1u64 << n) - 1) as u8;
    // "Any" update function over the field domain: xor with k, refuse on value z.
    let k = s.any_u8();
    let z = s.any_u8();
    let field = ref_get(pre, spec.bit_offset, n);
    let r = spec.fetch_update::<u8, _>(h.header(), Ordering::SeqCst, Ordering::SeqCst, |v: u8| {
        if v == z {
            None
        } else {
            Some((v ^ k) & m)
        }
    });
    let refuse = field == z as u64;
    chk!(s, "fetch_update Ok iff f returned Some", r.is_ok() == !refuse);
    match r {
        Ok(v) => {
            chk!(s, "fetch_update Ok value is the previous field value", v as u64 == field);
            chk!(s, "fetch_update stores f(field) into the field only", eq3(h.words(), ref_set(pre, spec.bit_offset, n, (field ^ k as u64) & m as u64)));
        }
        Err(v) => {
            chk!(s, "fetch_update Err value is the previous field value", v as u64 == field);
            chk!(s, "fetch_update None changes nothing", eq3(h.words(), pre));
        }
    }
    cov!(s, "update applied", r.is_ok());
    cov!(s, "update refused", r.is_err());
    witnesses(s, &spec, pre);
}

// ---------------------------------------------------------------- byte-or-wider fields

trait Wide: MetadataValue {
    const NBITS: usize;
    fn from64(v: u64) -> Self;
    fn to64(self) -> u64;
}
macro_rules! wide {
    ($t:ty) => {
        impl Wide for $t {
            const NBITS: usize = <$t>::BITS as usize;
            fn from64(v: u64) -> Self {
                v as $t
            }
            fn to64(self) -> u64 {
                self as u64
            }
        }
    };
}
wide!(u8);
wide!(u16);
wide!(u32);
wide!(u64);
wide!(usize);

/// Arbitrary spec of T's width, naturally aligned (the code's precondition), in [-64, 64).
fn any_wide_spec<T: Wide>(s: &mut Src) -> HeaderMetadataSpec {
    let bit_offset = s.any_isize();
    s.assume(bit_offset >= -64 && bit_offset < 64);
    s.assume(bit_offset & (T::NBITS as isize - 1) == 0);
    HeaderMetadataSpec {
        bit_offset,
        num_of_bits: T::NBITS,
    }
}

fn any_mask<T: Wide>(s: &mut Src) -> (Option<T>, u64) {
    let all = if T::NBITS == 64 { !0u64 } else { (1u64 << T::NBITS) - 1 };
    if s.any_bool() {
        let m = any_val(s, T::NBITS);
        (Some(T::from64(m)), m)
    } else {
        (None, all)
    }
}

fn wide_load<T: Wide>(s: &mut Src) {
    let spec = any_wide_spec::<T>(s);
    let mut h = Hdr::any(s);
    let pre = h.words();
    let (mask, m) = any_mask::<T>(s);
    let atomic = s.any_bool();
    let r: T = if atomic {
        spec.load_atomic::<T>(h.header(), mask, Ordering::SeqCst)
    } else {
        unsafe { spec.load::<T>(h.header(), mask) }
    };
    chk!(s, "load returns the (masked) field", r.to64() == ref_get(pre, spec.bit_offset, T::NBITS) & m);
    chk!(s, "load changes nothing", eq3(h.words(), pre));
    cov!(s, "masked", mask.is_some());
    witnesses(s, &spec, pre);
}

fn wide_store<T: Wide>(s: &mut Src) {
    let spec = any_wide_spec::<T>(s);
    let mut h = Hdr::any(s);
    let pre = h.words();
    let (mask, m) = any_mask::<T>(s);
    let v = any_val(s, T::NBITS);
    let atomic = s.any_bool();
    if atomic {
        spec.store_atomic::<T>(h.header(), T::from64(v), mask, Ordering::SeqCst)
    } else {
        unsafe { spec.store::<T>(h.header(), T::from64(v), mask) }
    };
    let field = ref_get(pre, spec.bit_offset, T::NBITS);
    chk!(s, "store writes exactly the (masked) field", eq3(h.words(), ref_set(pre, spec.bit_offset, T::NBITS, (field & !m) | (v & m))));
    cov!(s, "masked", mask.is_some());
    witnesses(s, &spec, pre);
}

/// Unmasked compare-exchange on a byte-or-wider field.
fn wide_cas<T: Wide>(s: &mut Src) {
    let spec = any_wide_spec::<T>(s);
    let mut h = Hdr::any(s);
    let pre = h.words();
    let old = any_val(s, T::NBITS);
    let new = any_val(s, T::NBITS);
    let field = ref_get(pre, spec.bit_offset, T::NBITS);
    let r = spec.compare_exchange::<T>(h.header(), T::from64(old), T::from64(new), None, Ordering::SeqCst, Ordering::SeqCst);
    chk!(s, "CAS succeeds iff field == old", r.is_ok() == (field == old));
    match r {
        Ok(v) => {
            chk!(s, "CAS success stores new into the field only", eq3(h.words(), ref_set(pre, spec.bit_offset, T::NBITS, new)));
            chk!(s, "CAS Ok value is the previous field value", v.to64() == field);
        }
        Err(v) => {
            chk!(s, "CAS failure changes nothing", eq3(h.words(), pre));
            chk!(s, "CAS Err value is the previous field value", v.to64() == field);
        }
    }
    cov!(s, "CAS succeeded", r.is_ok());
    cov!(s, "CAS failed", r.is_err());
    witnesses(s, &spec, pre);
}

/// Masked compare-exchange: the field is the masked bits; old/new are values of that field.
fn wide_cas_masked<T: Wide>(s: &mut Src) {
    let spec = any_wide_spec::<T>(s);
    let mut h = Hdr::any(s);
    let pre = h.words();
    let m = any_val(s, T::NBITS);
    let old = any_val(s, T::NBITS);
    let new = any_val(s, T::NBITS);
    s.assume(old & !m == 0 && new & !m == 0);
    let word = ref_get(pre, spec.bit_offset, T::NBITS);
    let field = word & m;
    let r = spec.compare_exchange::<T>(h.header(), T::from64(old), T::from64(new), Some(T::from64(m)), Ordering::SeqCst, Ordering::SeqCst);
    chk!(s, "masked CAS succeeds iff masked field == old", r.is_ok() == (field == old));
    match r {
        Ok(v) => {
            chk!(s, "masked CAS success stores new into the masked bits only", eq3(h.words(), ref_set(pre, spec.bit_offset, T::NBITS, (word & !m) | new)));
            chk!(s, "masked CAS Ok value is the previous masked field value", v.to64() == field);
        }
        Err(v) => {
            chk!(s, "masked CAS failure changes nothing", eq3(h.words(), pre));
            chk!(s, "masked CAS Err value is the previous masked field value", v.to64() == field);
        }
    }
    cov!(s, "CAS succeeded", r.is_ok());
    cov!(s, "CAS failed", r.is_err());
    cov!(s, "bits outside the mask non-zero", word & !m != 0);
    witnesses(s, &spec, pre);
}

fn wide_fetch<T: Wide>(s: &mut Src) {
    let spec = any_wide_spec::<T>(s);
    let mut h = Hdr::any(s);
    let pre = h.words();
    let v = any_val(s, T::NBITS);
    let op = s.any_u8();
    s.assume(op < 4);
    let field = ref_get(pre, spec.bit_offset, T::NBITS);
    let all = if T::NBITS == 64 { !0u64 } else { (1u64 << T::NBITS) - 1 };
    let (r, expect) = match op {
        0 => (spec.fetch_add::<T>(h.header(), T::from64(v), Ordering::SeqCst), field.wrapping_add(v) & all),
        1 => (spec.fetch_sub::<T>(h.header(), T::from64(v), Ordering::SeqCst), field.wrapping_sub(v) & all),
        2 => (spec.fetch_and::<T>(h.header(), T::from64(v), Ordering::SeqCst), field & v),
        _ => (spec.fetch_or::<T>(h.header(), T::from64(v), Ordering::SeqCst), field | v),
    };
    chk!(s, "fetch-op returns the previous field value", r.to64() == field);
    chk!(s, "fetch-op updates exactly the field", eq3(h.words(), ref_set(pre, spec.bit_offset, T::NBITS, expect)));
    cov!(s, "add", op == 0);
    cov!(s, "sub", op == 1);
    cov!(s, "and", op == 2);
    cov!(s, "or", op == 3);
    witnesses(s, &spec, pre);
}

fn wide_fetch_update<T: Wide>(s: &mut Src) {
    let spec = any_wide_spec::<T>(s);
    let mut h = Hdr::any(s);
    let pre = h.words();
    let k = any_val(s, T::NBITS);
    let z = any_val(s, T::NBITS);
    let field = ref_get(pre, spec.bit_offset, T::NBITS);
    let r = spec.fetch_update::<T, _>(h.header(), Ordering::SeqCst, Ordering::SeqCst, |v: T| {
        if v.to64() == z {
            None
        } else {
            Some(T::from64(v.to64() ^ k))
        }
    });
    chk!(s, "fetch_update Ok iff f returned Some", r.is_ok() == (field != z));
    match r {
        Ok(v) => {
            chk!(s, "fetch_update Ok value is the previous field value", v.to64() == field);
            chk!(s, "fetch_update stores f(field) into the field only", eq3(h.words(), ref_set(pre, spec.bit_offset, T::NBITS, field ^ k)));
        }
        Err(v) => {
            chk!(s, "fetch_update Err value is the previous field value", v.to64() == field);
            chk!(s, "fetch_update None changes nothing", eq3(h.words(), pre));
        }
    }
    cov!(s, "update applied", r.is_ok());
    cov!(s, "update refused", r.is_err());
    witnesses(s, &spec, pre);
}

macro_rules! wide_bodies {
    ($( $t:ty => $load:ident $store:ident $cas:ident $casm:ident $fetch:ident $upd:ident ; )*) => {
        $(
            pub fn $load(s: &mut Src) { wide_load::<$t>(s) }
            pub fn $store(s: &mut Src) { wide_store::<$t>(s) }
            pub fn $cas(s: &mut Src) { wide_cas::<$t>(s) }
            pub fn $casm(s: &mut Src) { wide_cas_masked::<$t>(s) }
            pub fn $fetch(s: &mut Src) { wide_fetch::<$t>(s) }
            pub fn $upd(s: &mut Src) { wide_fetch_update::<$t>(s) }
        )*
    };
}
wide_bodies! {
    u8 => c23_u8_load c23_u8_store c23_u8_cas c23_u8_cas_masked c23_u8_fetch c23_u8_fetch_update;
    u16 => c23_u16_load c23_u16_store c23_u16_cas c23_u16_cas_masked c23_u16_fetch c23_u16_fetch_update;
    u32 => c23_u32_load c23_u32_store c23_u32_cas c23_u32_cas_masked c23_u32_fetch c23_u32_fetch_update;
    u64 => c23_u64_load c23_u64_store c23_u64_cas c23_u64_cas_masked c23_u64_fetch c23_u64_fetch_update;
    usize => c23_usize_load c23_usize_store c23_usize_cas c23_usize_cas_masked c23_usize_fetch c23_usize_fetch_update;
}

harnesses! {
    #[kani::unwind(3)] c23_bits_load;
    #[kani::unwind(3)] c23_bits_store;
    #[kani::unwind(3)] c23_bits_cas;
    #[kani::unwind(3)] c23_bits_fetch_add;
    #[kani::unwind(3)] c23_bits_fetch_sub;
    #[kani::unwind(3)] c23_bits_fetch_and;
    #[kani::unwind(3)] c23_bits_fetch_or;
    #[kani::unwind(3)] c23_bits_fetch_update;
    #[kani::unwind(3)] c23_u8_load;
    #[kani::unwind(3)] c23_u8_store;
    #[kani::unwind(3)] c23_u8_cas;
    #[kani::unwind(3)] c23_u8_cas_masked;
    #[kani::unwind(3)] c23_u8_fetch;
    #[kani::unwind(3)] c23_u8_fetch_update;
    #[kani::unwind(3)] c23_u16_load;
    #[kani::unwind(3)] c23_u16_store;
    #[kani::unwind(3)] c23_u16_cas;
    #[kani::unwind(3)] c23_u16_cas_masked;
    #[kani::unwind(3)] c23_u16_fetch;
    #[kani::unwind(3)] c23_u16_fetch_update;
    #[kani::unwind(3)] c23_u32_load;
    #[kani::unwind(3)] c23_u32_store;
    #[kani::unwind(3)] c23_u32_cas;
    #[kani::unwind(3)] c23_u32_cas_masked;
    #[kani::unwind(3)] c23_u32_fetch;
    #[kani::unwind(3)] c23_u32_fetch_update;
    #[kani::unwind(3)] c23_u64_load;
    #[kani::unwind(3)] c23_u64_store;
    #[kani::unwind(3)] c23_u64_cas;
    #[kani::unwind(3)] c23_u64_cas_masked;
    #[kani::unwind(3)] c23_u64_fetch;
    #[kani::unwind(3)] c23_u64_fetch_update;
    #[kani::unwind(3)] c23_usize_load;
    #[kani::unwind(3)] c23_usize_store;
    #[kani::unwind(3)] c23_usize_cas;
    #[kani::unwind(3)] c23_usize_cas_masked;
    #[kani::unwind(3)] c23_usize_fetch;
    #[kani::unwind(3)] c23_usize_fetch_update;
}
