//! The value source: symbolic under Kani, recorded counterexample values under native replay.
//!
//! The order of `any_*` calls is the order of `kani::any()` calls, which is the order in which
//! `--concrete-playback=print` lists the counterexample byte vectors.

#[cfg(kani)]
pub struct Src;

#[cfg(kani)]
impl Src {
    pub fn new() -> Self {
        Src
    }
    pub fn any_u8(&mut self) -> u8 {
        kani::any()
    }
    pub fn any_u16(&mut self) -> u16 {
        kani::any()
    }
    pub fn any_u32(&mut self) -> u32 {
        kani::any()
    }
    pub fn any_u64(&mut self) -> u64 {
        kani::any()
    }
    pub fn any_usize(&mut self) -> usize {
        kani::any()
    }
    pub fn any_isize(&mut self) -> isize {
        kani::any()
    }
    pub fn any_bool(&mut self) -> bool {
        kani::any()
    }
    pub fn any_f64(&mut self) -> f64 {
        kani::any()
    }
    pub fn any_bytes<const N: usize>(&mut self) -> [u8; N] {
        kani::any()
    }
    pub fn assume(&mut self, c: bool) {
        kani::assume(c)
    }
}

#[cfg(not(kani))]
pub struct Src {
    vals: std::collections::VecDeque<Vec<u8>>,
    pub covers: Vec<&'static str>,
}

#[cfg(not(kani))]
impl Src {
    pub fn from_values(vals: Vec<Vec<u8>>) -> Self {
        Src {
            vals: vals.into(),
            covers: vec![],
        }
    }
    fn pop(&mut self, n: usize) -> Vec<u8> {
        match self.vals.pop_front() {
            Some(v) if v.len() == n => v,
            Some(v) => {
                println!("REPLAY-RESULT: value-shape-mismatch wanted {} got {}", n, v.len());
                std::process::exit(6)
            }
            None => {
                println!("REPLAY-RESULT: values-exhausted");
                std::process::exit(6)
            }
        }
    }
    pub fn any_u8(&mut self) -> u8 {
        self.pop(1)[0]
    }
    pub fn any_u16(&mut self) -> u16 {
        u16::from_le_bytes(self.pop(2).try_into().unwrap())
    }
    pub fn any_u32(&mut self) -> u32 {
        u32::from_le_bytes(self.pop(4).try_into().unwrap())
    }
    pub fn any_u64(&mut self) -> u64 {
        u64::from_le_bytes(self.pop(8).try_into().unwrap())
    }
    pub fn any_usize(&mut self) -> usize {
        self.any_u64() as usize
    }
    pub fn any_isize(&mut self) -> isize {
        self.any_u64() as isize
    }
    pub fn any_bool(&mut self) -> bool {
        self.pop(1)[0] != 0
    }
    pub fn any_f64(&mut self) -> f64 {
        f64::from_bits(self.any_u64())
    }
    pub fn any_bytes<const N: usize>(&mut self) -> [u8; N] {
        // Kani lists an array either as N one-byte values or as one N-byte value.
        if self.vals.front().map(|v| v.len()) == Some(N) && N != 1 {
            return self.pop(N).try_into().unwrap();
        }
        let mut out = [0u8; N];
        for b in out.iter_mut() {
            *b = self.any_u8();
        }
        out
    }
    pub fn assume(&mut self, c: bool) {
        if !c {
            println!("REPLAY-RESULT: assumption-not-met");
            std::process::exit(5)
        }
    }
    pub fn check_native(&mut self, id: &'static str, c: bool) {
        if !c {
            println!("REPLAY-RESULT: check-failed {}", id);
            std::process::exit(3)
        }
    }
    pub fn cover_native(&mut self, id: &'static str, c: bool) {
        if c {
            self.covers.push(id);
        }
    }
}

impl Src {
    /// A symbolic usize in `lo..=hi`.
    pub fn any_in(&mut self, lo: usize, hi: usize) -> usize {
        let v = self.any_usize();
        self.assume(v >= lo && v <= hi);
        v
    }
}

/// The property assertion.  `id` is a literal so that Kani reports it per obligation and the
/// native replayer can name the assertion that tripped.
#[macro_export]
macro_rules! chk {
    ($s:expr, $id:literal, $c:expr) => {{
        let __c: bool = $c;
        let _ = &$s;
        #[cfg(kani)]
        {
            kani::assert(__c, $id);
        }
        #[cfg(not(kani))]
        {
            $s.check_native($id, __c);
        }
    }};
}

/// Reachability witness: must come back SATISFIED, otherwise the harness is vacuous.
#[macro_export]
macro_rules! cov {
    ($s:expr, $id:literal, $c:expr) => {{
        let __c: bool = $c;
        let _ = &$s;
        #[cfg(kani)]
        {
            kani::cover!(__c, $id);
        }
        #[cfg(not(kani))]
        {
            $s.cover_native($id, __c);
        }
    }};
}

/// Defines, for each listed body `fn name(s: &mut Src)` of the enclosing module, the
/// `#[kani::proof]` wrapper `proofs::name` (carrying the given attributes: unwind bound, stubs) and
/// the module's replay `TABLE` used by the native replayer.
#[macro_export]
macro_rules! harnesses {
    ( $( $(#[$m:meta])* $name:ident ; )* ) => {
        pub const TABLE: &[(&str, fn(&mut $crate::Src))] = &[ $( (stringify!($name), $name) ),* ];
        #[cfg(kani)]
        mod proofs {
            $(
                #[kani::proof]
                $(#[$m])*
                fn $name() {
                    let mut s = $crate::Src::new();
                    super::$name(&mut s);
                }
            )*
        }
    };
}
