//! C26 — free lists allocate disjoint runs and coalesce back completely.
//!
//! Real code: `FreeList::{alloc, alloc_from_unit, free, size, initialize_heap, add_to_free,
//! __alloc, __split, __coalesce, __remove_from_free, get/set_*}` through `IntArrayFreeList`
//! (incl. `from_parent` child heads sharing the parent's table and `set_uncoalescable`).
//! Ghost state in the harness: `own[u]` = id of the allocated run covering unit `u` (0 = free).
//! After every operation the harness walks the real table (`size`, `is_free`) and requires that
//! it partitions `[0, units)` into runs that agree with the ghost map.

use crate::*;
use mmtk::util::verif_freelist::*;

const MAXU: usize = 6;

struct Ghost {
    units: i32,
    own: [u8; MAXU],
    next_id: u8,
    /// unit -> true if an uncoalescable mark was placed there
    mark: [bool; MAXU + 1],
}

impl Ghost {
    fn range_free(&self, u: i32, n: i32) -> bool {
        let mut ok = u >= 0 && n >= 1 && u + n <= self.units;
        let mut i = 0;
        while i < MAXU as i32 {
            if ok && i >= u && i < u + n {
                ok &= self.own[i as usize] == 0;
            }
            i += 1;
        }
        ok
    }
    fn fill(&mut self, u: i32, n: i32, id: u8) {
        let mut i = 0;
        while i < MAXU as i32 {
            if i >= u && i < u + n {
                self.own[i as usize] = id;
            }
            i += 1;
        }
    }
    /// Longest stretch of consecutive free units that does not cross an uncoalescable mark.
    fn longest_free(&self) -> i32 {
        let mut best = 0;
        let mut cur = 0;
        let mut i = 0;
        while i < MAXU as i32 {
            if i < self.units && self.own[i as usize] == 0 {
                if self.mark[i as usize] {
                    cur = 0;
                }
                cur += 1;
                if cur > best {
                    best = cur;
                }
            } else {
                cur = 0;
            }
            i += 1;
        }
        best
    }
}

/// Walk the real table: runs must tile [0, units) and agree with the ghost map (a free run covers
/// only free units, an allocated run is exactly one ghost run, no run extends across an
/// uncoalescable boundary).  Returns (ok, longest free run).
fn walk(l: &IntArrayFreeList, g: &Ghost) -> (bool, i32) {
    let mut ok = true;
    let mut longest = 0;
    let mut cur_end = 0i32; // end of the table run that covers unit i
    let mut cur_id = 0u8;
    let mut i = 0i32;
    while i < MAXU as i32 {
        if ok && i < g.units {
            if i == cur_end {
                let sz = l.size(i);
                let free = l.is_free(i);
                cur_id = g.own[i as usize];
                ok &= sz >= 1 && sz <= g.units - i;
                ok &= free == (cur_id == 0);
                // an allocated table run starts where the ghost run starts
                ok &= free || i == 0 || g.own[(i - 1) as usize] != cur_id;
                if free && sz > longest {
                    longest = sz;
                }
                cur_end = i + sz;
            } else {
                ok &= !g.mark[i as usize];
            }
            ok &= g.own[i as usize] == cur_id;
            // an allocated table run ends where the ghost run ends
            if i + 1 == cur_end && cur_id != 0 && i + 1 < g.units {
                ok &= g.own[(i + 1) as usize] != cur_id;
            }
        }
        i += 1;
    }
    ok &= cur_end == g.units;
    (ok, longest)
}

/// Single list, one initial run (grain == units): the configuration every in-tree user creates.
/// Up to 4 alloc/free operations, then everything is freed and the whole list is allocated again.
fn single(s: &mut Src, units: i32, with_marks: bool) {
    single_n(s, units, with_marks, 3)
}

fn single_n(s: &mut Src, units: i32, with_marks: bool, steps: usize) {
    let mut l = IntArrayFreeList::new(units as usize, units, 1);
    let mut g = Ghost { units, own: [0; MAXU], next_id: 1, mark: [false; MAXU + 1] };
    let mut starts = [-1i32; 5];
    let mut step = 0;
    while step < steps {
        let is_alloc = s.any_bool();
        let is_mark = with_marks && s.any_bool();
        if is_mark {
            // place an uncoalescable boundary at the first unit of a run (as Map64 does for chunks)
            let u = s.any_in(0, 5) as i32;
            s.assume(u < units);
            // run start according to the live-run map (free runs are fully coalesced up to marks)
            s.assume(u == 0 || g.own[(u - 1) as usize] != g.own[u as usize] || g.mark[u as usize]);
            l.set_uncoalescable(u);
            g.mark[u as usize] = true;
        } else if is_alloc {
            let n = s.any_in(1, 6) as i32;
            let u = l.alloc(n);
            if u == FAILURE {
                chk!(s, "alloc fails only when no free run of that length exists", g.longest_free() < n);
                cov!(s, "alloc failed although enough units are free in total (fragmentation)", step >= 2 && n <= 2);
            } else {
                chk!(s, "allocated run lies inside the list and is disjoint from every live run", g.range_free(u, n));
                chk!(s, "size reports the allocated run's length", l.size(u) == n);
                let id = g.next_id;
                g.fill(u, n, id);
                starts[id as usize] = u;
                g.next_id += 1;
            }
        } else {
            let k = s.any_in(1, 3);
            s.assume(k < g.next_id as usize && starts[k] >= 0);
            let u = starts[k];
            let n = l.size(u);
            let freed = l.free(u, false);
            chk!(s, "free returns the run's length", freed == n);
            g.fill(u, n, 0);
            starts[k] = -1;
        }
        let (ok, longest) = walk(&l, &g);
        chk!(s, "table runs tile the list and agree with the live-run map", ok);
        chk!(s, "free runs are fully coalesced", longest == g.longest_free());
        step += 1;
    }
    // free everything that is still live
    let mut k = 1;
    while k < 5 {
        if k < g.next_id as usize && starts[k] >= 0 {
            l.free(starts[k], false);
        }
        k += 1;
    }
    if !with_marks {
        chk!(s, "after freeing everything the whole list is one free run again", l.alloc(units) == 0 && l.size(0) == units);
    } else {
        g.own = [0; MAXU];
        let (ok, longest) = walk(&l, &g);
        chk!(s, "after freeing everything all units are free, in runs delimited exactly by the uncoalescable boundaries", ok && longest == g.longest_free());
    }
    cov!(s, "a boundary was placed inside the list (marks variant)", !with_marks || g.mark[1] || g.mark[2] || g.mark[3] || g.mark[4]);
    cov!(s, "three runs were allocated", g.next_id >= 4);
    cov!(s, "a run was freed and its units reallocated", g.next_id >= 3 && starts[1] < 0);
}

pub fn c26_single_u6(s: &mut Src) {
    single(s, 6, false)
}
/// Single list with uncoalescable boundaries placed at run starts.
pub fn c26_single_marks(s: &mut Src) {
    single(s, 5, true)
}
/// Thorough tier: four operations on a 4-unit list.
pub fn c26_single_u4_4ops(s: &mut Src) {
    single_n(s, 4, false, 4)
}
pub fn c26_single_u3(s: &mut Src) {
    single(s, 3, false)
}

/// Parent + child list sharing one table, grain symbolic, uncoalescable marks, alloc_from_unit.
fn two_heads(s: &mut Src, units: i32, grain: i32, steps: usize) {
    let mut parent = IntArrayFreeList::new(units as usize, grain, 2);
    let mut child = IntArrayFreeList::from_parent(&parent, 1);
    let mut g = Ghost { units, own: [0; MAXU], next_id: 1, mark: [false; MAXU + 1] };
    let mut starts = [-1i32; 5];
    let mut step = 0;
    while step < steps {
        let op = s.any_u8();
        s.assume(op < 4);
        let on_child = s.any_bool();
        let l: &mut IntArrayFreeList = if on_child { &mut child } else { &mut parent };
        match op {
            0 => {
                let n = s.any_in(1, 6) as i32;
                let u = l.alloc(n);
                if u != FAILURE {
                    chk!(s, "two heads: allocated run inside the list and disjoint from live runs", g.range_free(u, n));
                    chk!(s, "two heads: size reports the run's length", l.size(u) == n);
                    let id = g.next_id;
                    g.fill(u, n, id);
                    starts[id as usize] = u;
                    g.next_id += 1;
                } else {
                    cov!(s, "child list alloc fails while the parent list holds free runs", on_child && g.longest_free() >= n);
                }
            }
            1 => {
                let n = s.any_in(1, 6) as i32;
                let u = s.any_in(0, 5) as i32;
                s.assume(u < units);
                // alloc_from_unit is called on the first unit of a run (as Map64 does)
                s.assume(l.size(u) >= 1 && (u == 0 || l.get_right(l.get_left(u)) == u));
                let r = l.alloc_from_unit(n, u);
                if r != FAILURE {
                    chk!(s, "alloc_from_unit returns the requested unit", r == u);
                    chk!(s, "alloc_from_unit: run disjoint from live runs", g.range_free(u, n));
                    chk!(s, "alloc_from_unit: size reports the run's length", l.size(u) == n);
                    let id = g.next_id;
                    g.fill(u, n, id);
                    starts[id as usize] = u;
                    g.next_id += 1;
                } else {
                    chk!(s, "alloc_from_unit fails only if the unit is live or its run is too short", !l.is_free(u) || l.size(u) < n);
                }
            }
            2 => {
                let k = s.any_in(1, 3);
                s.assume(k < g.next_id as usize && starts[k] >= 0);
                let u = starts[k];
                let n = l.size(u);
                let freed = l.free(u, false);
                chk!(s, "two heads: free returns the run's length", freed == n);
                g.fill(u, n, 0);
                starts[k] = -1;
            }
            _ => {
                // place an uncoalescable boundary at the first unit of a run
                let u = s.any_in(0, 5) as i32;
                s.assume(u < units && (u == 0 || l.get_right(l.get_left(u)) == u));
                l.set_uncoalescable(u);
                g.mark[u as usize] = true;
            }
        }
        let (ok, longest) = walk(&parent, &g);
        chk!(s, "two heads: table runs tile the list and agree with the live-run map", ok);
        let _ = longest;
        step += 1;
    }
    // free everything that is still live (through the child list): every unit is free again
    let mut k = 1;
    while k < 4 {
        if k < g.next_id as usize && starts[k] >= 0 {
            let n = child.size(starts[k]);
            child.free(starts[k], false);
            g.fill(starts[k], n, 0);
        }
        k += 1;
    }
    let (ok, _) = walk(&parent, &g);
    chk!(s, "two heads: after freeing everything every unit is in a free run again", ok);
    cov!(s, "an uncoalescable mark and a live run existed", g.next_id >= 2 && (g.mark[1] || g.mark[2] || g.mark[3]));
    cov!(s, "two runs were allocated", g.next_id >= 3);
}
pub fn c26_two_heads_one_run(s: &mut Src) {
    two_heads(s, 4, 4, 2)
}
pub fn c26_two_heads_grain2(s: &mut Src) {
    two_heads(s, 4, 2, 2)
}
pub fn c26_two_heads_u5(s: &mut Src) {
    two_heads(s, 5, 5, 3)
}

harnesses! {
    #[kani::unwind(8)] c26_single_u6; // timeout=900
    #[kani::unwind(8)] c26_single_u3; // timeout=900
    #[kani::unwind(8)] c26_single_u4_4ops; // tier=thorough timeout=2400
    #[kani::unwind(8)] c26_single_marks; // timeout=900
    #[kani::unwind(8)] c26_two_heads_one_run; // tier=wip timeout=900
    #[kani::unwind(8)] c26_two_heads_grain2; // tier=wip timeout=900
    #[kani::unwind(8)] c26_two_heads_u5; // tier=wip timeout=2400
}
