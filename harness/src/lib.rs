//! Solver-checked obligations for mmtk-core (see /verif/DESIGN.md).
//!
//! Every obligation is a plain generic function `fn body<S: Src>(s: &mut S)` over the real
//! mmtk-core functions.  Under `cargo kani` the `KaniSrc` source turns every `any_*` call into a
//! symbolic variable and every `check` into an assertion decided by CBMC; the native `replay`
//! binary runs the *same* body with the solver's counterexample values (`ReplaySrc`) so a reported
//! violation is always one that reproduces against the natively compiled code.
#![allow(clippy::all)]
#![allow(dead_code)]
#![allow(unused_imports)]
#![allow(static_mut_refs)]

pub mod src;
pub use src::*;

pub mod env;
pub mod vm;

pub mod c20_side;
pub mod c21_bulk;
pub mod c23_header;
pub mod c25_sanity;
pub mod c32_descriptor;
pub mod c33_align;
pub mod c40_groupby;

/// Table of all bodies for the native replayer.
pub fn replay_table() -> Vec<(&'static str, fn(&mut Src))> {
    let mut v: Vec<(&'static str, fn(&mut Src))> = Vec::new();
    v.extend_from_slice(c20_side::TABLE);
    v.extend_from_slice(c21_bulk::TABLE);
    v.extend_from_slice(c23_header::TABLE);
    v.extend_from_slice(c25_sanity::TABLE);
    v.extend_from_slice(c32_descriptor::TABLE);
    v.extend_from_slice(c33_align::TABLE);
    v.extend_from_slice(c40_groupby::TABLE);
    v
}
