//! Solver-checked obligations for mmtk-core (see /verif/DESIGN.md).
//!
//! Every obligation is a plain generic function `fn body<S: Src>(s: &mut S)` over the real
//! mmtk-core functions.  Under `cargo kani` the `KaniSrc` source turns every `any_*` call into a
//! symbolic variable and every `check` into an assertion decided by CBMC; the native `replay`
//! binary runs the *same* body with the solver's counterexample values (`ReplaySrc`) so a reported
//! violation is always one that reproduces against the natively compiled code.
#![allow(clippy::all)]
#![allow(dead_code)]
#![allow(unused_imports)]
#![allow(static_mut_refs)]

pub mod src;
pub use src::*;

pub mod env;
pub mod vm;

#[cfg(feature = "vo_bit")]
pub mod c08_vobit;
pub mod c10_alloc;
pub mod c17_forwarding;
pub mod c18_bits;
pub mod c20_side;
pub mod c21_bulk;
pub mod c22_search;
pub mod c23_header;
pub mod gen_specs;
pub mod c24_alias;
pub mod c25_sanity;
pub mod c26_freelist;
pub mod c27_rawgrow;
pub mod c28_pageresource;
pub mod c30_mmapper;
pub mod c31_resolve;
pub mod c32_descriptor;
pub mod c33_align;
pub mod c34_immix;
pub mod c35_sizeclass;
pub mod c37_compressor;
pub mod c38_membalancer;
pub mod c40_groupby;

/// Table of all bodies for the native replayer.
pub fn replay_table() -> Vec<(&'static str, fn(&mut Src))> {
    let mut v: Vec<(&'static str, fn(&mut Src))> = Vec::new();
    #[cfg(feature = "vo_bit")]
    v.extend_from_slice(c08_vobit::TABLE);
    v.extend_from_slice(c10_alloc::TABLE);
    v.extend_from_slice(c17_forwarding::TABLE);
    v.extend_from_slice(c18_bits::TABLE);
    v.extend_from_slice(c20_side::TABLE);
    v.extend_from_slice(c21_bulk::TABLE);
    v.extend_from_slice(c22_search::TABLE);
    v.extend_from_slice(c23_header::TABLE);
    v.extend_from_slice(c24_alias::TABLE);
    v.extend_from_slice(c25_sanity::TABLE);
    v.extend_from_slice(c26_freelist::TABLE);
    v.extend_from_slice(c27_rawgrow::TABLE);
    v.extend_from_slice(c28_pageresource::TABLE);
    v.extend_from_slice(c30_mmapper::TABLE);
    v.extend_from_slice(c31_resolve::TABLE);
    v.extend_from_slice(c32_descriptor::TABLE);
    v.extend_from_slice(c33_align::TABLE);
    v.extend_from_slice(c34_immix::TABLE);
    v.extend_from_slice(c35_sizeclass::TABLE);
    v.extend_from_slice(c37_compressor::TABLE);
    v.extend_from_slice(c38_membalancer::TABLE);
    v.extend_from_slice(c40_groupby::TABLE);
    v
}
