//! C24 — side-metadata tables in use by one configuration never alias.
//!
//! Real code: the `const` specs of `spec_defs.rs` (list regenerated from the source on every run,
//! `gen_specs.rs`), `side_metadata_offset_after`, `SideMetadataSpec::upper_bound_offset`,
//! `metadata_address_range_size`, the VM spec constructors `VM*Spec::{in_header, side_first,
//! side_after}` for the six VM specs (called at run time with a symbolic placement),
//! `set_vm_side_metadata_specs`, `side_metadata_reserved_bytes`.
//! Oracle: every pair of side specs of the superset (core global ∪ core local ∪ VM specs in any
//! in-header/side placement and declaration order) is disjoint as `[offset, offset+range_size)`
//! and lies inside `[0, reserved_bytes)`.  One family of pairs is exempt, with the reason checked
//! against the source on every run: a VM *global* spec vs. the two core local specs that only
//! `MallocSpace` uses — the only plan that creates a `MallocSpace` (MarkSweep) declares no VM
//! global spec, so no configuration reads or writes both.

use crate::env::*;
use crate::gen_specs::*;
use crate::*;
use mmtk::util::metadata::side_metadata::verif::{metadata_address_range_size, set_vm_side_metadata_specs, side_metadata_reserved_bytes};
use mmtk::util::metadata::side_metadata::SideMetadataSpec;
use mmtk::util::metadata::MetadataSpec;
use mmtk::vm::*;


fn side_of(m: &MetadataSpec) -> Option<SideMetadataSpec> {
    match m {
        MetadataSpec::OnSide(s) => Some(*s),
        _ => None,
    }
}

/// Build local VM spec `kind` after `prev` (None = first of its chain).
fn local_spec(kind: usize, prev: Option<MetadataSpec>) -> MetadataSpec {
    match (kind, prev) {
        (0, None) => *VMLocalForwardingPointerSpec::side_first().as_spec(),
        (0, Some(p)) => *VMLocalForwardingPointerSpec::side_after(&p).as_spec(),
        (1, None) => *VMLocalForwardingBitsSpec::side_first().as_spec(),
        (1, Some(p)) => *VMLocalForwardingBitsSpec::side_after(&p).as_spec(),
        (2, None) => *VMLocalMarkBitSpec::side_first().as_spec(),
        (2, Some(p)) => *VMLocalMarkBitSpec::side_after(&p).as_spec(),
        (3, None) => *VMLocalPinningBitSpec::side_first().as_spec(),
        (3, Some(p)) => *VMLocalPinningBitSpec::side_after(&p).as_spec(),
        (_, None) => *VMLocalLOSMarkNurserySpec::side_first().as_spec(),
        (_, Some(p)) => *VMLocalLOSMarkNurserySpec::side_after(&p).as_spec(),
    }
}

fn range(sp: &SideMetadataSpec) -> (usize, usize) {
    (sp.offset, sp.offset + metadata_address_range_size(sp))
}
fn disjoint(a: &SideMetadataSpec, b: &SideMetadataSpec) -> bool {
    let (a0, a1) = range(a);
    let (b0, b1) = range(b);
    a1 <= b0 || b1 <= a0
}

pub fn c24_superset(s: &mut Src) {
    install_mmapper();
    // VM specs in fixed slots: 0 = global log bit, 1..=5 = the local specs by kind.
    // An absent (in-header) spec is represented by a core spec that is in the set anyway.
    let dummy = CORE_SPECS[N_CORE - 1];
    let mut vm = [dummy; 6];
    let mut present = [false; 6];
    if s.any_bool() {
        vm[0] = side_of(VMGlobalLogBitSpec::side_first().as_spec()).unwrap();
        present[0] = true;
    }
    // VM local specs: any subset on the side, chained in any declaration order
    let mut used = [false; 5];
    let mut prev: Option<MetadataSpec> = None;
    let mut i = 0;
    while i < 5 {
        let k = s.any_in(0, 4);
        s.assume(!used[k]);
        used[k] = true;
        if s.any_bool() {
            let m = local_spec(k, prev);
            let sp = side_of(&m).unwrap();
            let mut j = 0;
            while j < 5 {
                if j == k {
                    vm[1 + j] = sp;
                    present[1 + j] = true;
                }
                j += 1;
            }
            prev = Some(m);
        }
        i += 1;
    }
    let n_vm = present.iter().filter(|p| **p).count();
    set_vm_side_metadata_specs(&vm);
    set_side_base(0);
    let reserved = side_metadata_reserved_bytes();
    let mut ok_disjoint = true;
    let mut ok_inside = true;
    // core x core (constants), core x VM, VM x VM
    let mut a = 0;
    while a < N_CORE {
        ok_inside &= range(&CORE_SPECS[a]).1 <= reserved;
        let mut b = a + 1;
        while b < N_CORE {
            ok_disjoint &= disjoint(&CORE_SPECS[a], &CORE_SPECS[b]);
            b += 1;
        }
        let mut v = 0;
        while v < 6 {
            if present[v] {
                // exempt: VM *global* spec vs. MallocSpace-only core local specs (no plan combines them)
                let exempt = v == 0 && !MALLOC_MS_PLAN_USES_VM_GLOBAL_SPECS && is_malloc_only(&CORE_SPECS[a]);
                if !exempt {
                    ok_disjoint &= disjoint(&CORE_SPECS[a], &vm[v]);
                }
            }
            v += 1;
        }
        a += 1;
    }
    let mut v = 0;
    while v < 6 {
        if present[v] {
            let (lo, hi) = range(&vm[v]);
            ok_inside &= hi <= reserved && hi > lo;
            let mut w = v + 1;
            while w < 6 {
                if present[w] {
                    ok_disjoint &= disjoint(&vm[v], &vm[w]);
                }
                w += 1;
            }
        }
        v += 1;
    }
    chk!(s, "side specs that one configuration can use are pairwise disjoint", ok_disjoint);
    chk!(s, "every side spec lies inside the reserved side-metadata range", ok_inside);
    chk!(s, "the reserved range is a multiple of the mmap granularity", reserved & ((1 << 22) - 1) == 0);
    cov!(s, "all six VM specs on the side", n_vm == 6);
    cov!(s, "no VM spec on the side", n_vm == 0);
    cov!(s, "three VM local specs on the side, log bit in the header", n_vm == 3 && !present[0]);
}

harnesses! {
    #[kani::unwind(27)] #[kani::stub(alloc::fmt::format, crate::env::stub_format)] c24_superset; // timeout=900
}
