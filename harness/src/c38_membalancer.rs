//! C38 — dynamic heap size stays within its bounds.
//!
//! Real code: `MemBalancerTrigger::compute_new_heap_limit` (the real float code: smoothing,
//! division, `sqrt`, `as usize`, `clamp`), `on_pending_allocation`,
//! `get_current_heap_size_in_pages`, `get_max_heap_size_in_pages`, `can_heap_size_grow`, driven
//! through the `verif_*` hooks (which only move plain numbers into the private statistics struct).

use crate::vm::VmA;
use crate::*;
use mmtk::verif_export::heap::MemBalancerTrigger;

fn any_opt(s: &mut Src) -> Option<f64> {
    if s.any_bool() {
        Some(s.any_f64())
    } else {
        None
    }
}

fn setup(s: &mut Src) -> (MemBalancerTrigger, usize, usize) {
    let min = s.any_usize();
    let max = s.any_usize();
    s.assume(min <= max && max < (1usize << 40));
    let t = MemBalancerTrigger::verif_new(min, max);
    let (cur, mx, _) = t.verif_observe::<VmA>(0);
    chk!(s, "initial heap size is within [min, max]", cur >= min && cur <= max && mx == max);
    (t, min, max)
}

/// The property as stated: arbitrary IEEE doubles (NaN, infinities, zeros, negatives, denormals)
/// as statistics and smoothing state; one collection from an arbitrary state.  Rust overflow panics of
/// the dev profile are outside this harness's claim (`ignore=arithmetic`): with statistics whose
/// ratio makes the square-root term exceed 2^63 pages the page sum overflows, which panics in a dev
/// build and wraps (and is then clamped into range) in a release build; harness (b) shows it cannot
/// happen inside a physical envelope.
pub fn c38_any_doubles(s: &mut Src) {
    let (t, min, max) = setup(s);
    t.verif_set_prev([any_opt(s), any_opt(s), any_opt(s), any_opt(s)]);
    // One collection from an arbitrary smoothing state is the inductive step: the state a
    // collection leaves behind (prev = Some(this collection's statistics)) is itself one of the
    // arbitrary states quantified over here, and the heap size does not feed back.
    let mut step = 0;
    while step < 1 {
        let live = s.any_usize();
        let extra = s.any_usize();
        let pending = s.any_usize();
        s.assume(live < (1usize << 40) && extra < (1usize << 40) && pending < (1usize << 40));
        let _ = t.verif_observe::<VmA>(pending);
        let stats = [s.any_f64(), s.any_f64(), s.any_f64(), s.any_f64()];
        t.verif_step(live, extra, stats);
        let (cur, mx, grow) = t.verif_observe::<VmA>(0);
        chk!(s, "heap size after a collection is within [min, max]", cur >= min && cur <= max);
        chk!(s, "max heap size is the configured maximum", mx == max);
        chk!(s, "can_heap_size_grow iff current is below max", grow == (cur < max));
        cov!(s, "a NaN statistic", stats[0].is_nan() || stats[1].is_nan());
        cov!(s, "clamped to max", cur == max && max > min);
        cov!(s, "clamped to min", cur == min && max > min);
        cov!(s, "strictly between min and max", cur > min && cur < max);
        step += 1;
    }
}

/// Physical envelope: finite non-negative statistics with allocation rate <= 2^30 pages/s and
/// collection rate >= 1 page/s.  All checks on: additionally shows that the page sum
/// `live + e + extra + pending` cannot overflow inside the envelope.
pub fn c38_envelope(s: &mut Src) {
    let (t, min, max) = setup(s);
    let live = s.any_usize();
    let extra = s.any_usize();
    let pending = s.any_usize();
    s.assume(live < (1usize << 40) && extra < (1usize << 40) && pending < (1usize << 40));
    let _ = t.verif_observe::<VmA>(pending);
    let am = s.any_f64();
    let at = s.any_f64();
    let gm = s.any_f64();
    let gt = s.any_f64();
    s.assume(am >= 0.0 && at >= 0.0 && gm >= 0.0 && gt >= 0.0);
    s.assume(am <= 1e15 && at <= 1e9 && gm <= 1e15 && gt <= 1e9);
    s.assume(am <= 1073741824.0 * at); // allocation rate <= 2^30 pages per second
    s.assume(gm >= gt); // collection rate >= 1 page per second
    t.verif_step(live, extra, [am, at, gm, gt]);
    let (cur, _, _) = t.verif_observe::<VmA>(0);
    chk!(s, "envelope: heap size within [min, max]", cur >= min && cur <= max);
    cov!(s, "envelope: formula branch taken (all statistics non-zero)", am != 0.0 && at != 0.0 && gm != 0.0 && gt != 0.0);
    cov!(s, "envelope: fallback branch taken (a zero statistic)", at == 0.0);
}

harnesses! {
    #[kani::unwind(3)] c38_any_doubles; // timeout=900 ignore=arithmetic
    #[kani::unwind(3)] c38_envelope; // timeout=900
}
