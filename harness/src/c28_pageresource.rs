//! C28 — page resources hand out disjoint in-space pages with exact accounting
//! (monotone page resource of a contiguous space, and the page accounting shared by all resources).
//!
//! Real code: `MonotonePageResource::{new_contiguous, alloc_pages, reset, reset_cursor, cursor}`,
//! `PageResource::{get_new_pages, reserve_pages, clear_request, commit_pages, reserved_pages,
//! committed_pages}`, `CommonPageResource::new`, `PageAccounting::*`.
//! The `VMMap` the resource holds is a harness object (never called on this path).
//! Histories of 4 `Space::acquire`-shaped steps: reserve `r` pages, then either ask for `a >= r`
//! pages or give the reservation up.

use crate::env::*;
use crate::vm::*;
use crate::*;
use mmtk::util::heap::vm_layout::*;
use mmtk::util::opaque_pointer::*;
use mmtk::util::Address;
use mmtk::verif_export::heap::*;

pub struct NoMap;
impl VMMap for NoMap {
    fn insert(&self, _start: Address, _extent: usize, _descriptor: SpaceDescriptor) {
        unimplemented!()
    }
    fn create_freelist(&self, _start: Address) -> CreateFreeListResult {
        unimplemented!()
    }
    fn create_parent_freelist(&self, _start: Address, _units: usize, _grain: i32) -> CreateFreeListResult {
        unimplemented!()
    }
    unsafe fn allocate_contiguous_chunks(&self, _d: SpaceDescriptor, _c: usize, _h: Address, _f: Option<&mut dyn mmtk::util::verif_freelist::FreeList>) -> Address {
        unimplemented!()
    }
    fn get_next_contiguous_region(&self, _start: Address) -> Address {
        unimplemented!()
    }
    fn get_contiguous_region_chunks(&self, _start: Address) -> usize {
        unimplemented!()
    }
    fn get_contiguous_region_size(&self, _start: Address) -> usize {
        unimplemented!()
    }
    fn get_available_discontiguous_chunks(&self) -> usize {
        unimplemented!()
    }
    fn get_chunk_consumer_count(&self) -> usize {
        unimplemented!()
    }
    fn free_all_chunks(&self, _any_chunk: Address) {
        unimplemented!()
    }
    unsafe fn free_contiguous_chunks(&self, _start: Address) -> usize {
        unimplemented!()
    }
    fn finalize_static_space_map(&self, _from: Address, _to: Address, _f: &mut dyn FnMut(Address)) {
        unimplemented!()
    }
    fn is_finalized(&self) -> bool {
        true
    }
    fn get_descriptor_for_address(&self, _address: Address) -> SpaceDescriptor {
        SpaceDescriptor::UNINITIALIZED
    }
    fn min_contiguous_extent(&self) -> usize {
        BYTES_IN_CHUNK
    }
}
pub static NOMAP: NoMap = NoMap;

const PAGE: usize = 4096;

pub fn c28_monotone_contiguous(s: &mut Src) {
    // a contiguous space of 1..=3 chunks starting at a chunk-aligned address
    let start = s.any_usize();
    let chunks = s.any_in(1, 3);
    s.assume(start & CHUNK_MASK == 0 && start >= BYTES_IN_CHUNK && start < (1usize << 46));
    let extent = chunks << LOG_BYTES_IN_CHUNK;
    let pr = MonotonePageResource::<VmA>::new_contiguous(unsafe { Address::from_usize(start) }, extent, &NOMAP);
    let d = SpaceDescriptor::UNINITIALIZED;
    let tls = VMThread::UNINITIALIZED;
    let mut next = start; // ghost: end of the pages granted so far
    let mut granted_pages = 0usize;
    let mut step = 0;
    let mut saw_fail = false;
    while step < 4 {
        let r = s.any_in(1, 1 << 11); // up to 2 chunks worth of pages per request
        let reserved = pr.reserve_pages(r);
        chk!(s, "reserve_pages reserves what was asked", reserved == r && pr.reserved_pages() == granted_pages + r);
        if s.any_bool() {
            // the resource may grant more than was reserved (never less: `commit_pages` accounts the
            // difference), Space::acquire asks for exactly the reservation
            let a = s.any_in(1, 1 << 11);
            s.assume(a >= r);
            match pr.get_new_pages(d, reserved, a, tls) {
                Ok(res) => {
                    let st = res.start.as_usize();
                    chk!(s, "a grant is page aligned and has the requested size", st % PAGE == 0 && res.pages == a);
                    chk!(s, "grants follow each other: disjoint from every earlier grant", st == next);
                    chk!(s, "a grant lies inside the space", st >= start && st + a * PAGE <= start + extent);
                    next = st + a * PAGE;
                    granted_pages += a;
                    chk!(s, "after a grant reserved == committed == pages granted", pr.reserved_pages() == granted_pages && pr.committed_pages() == granted_pages);
                }
                Err(_) => {
                    chk!(s, "a request fails only if it does not fit in the rest of the space", next + a * PAGE > start + extent);
                    // the caller (Space::acquire) gives the reservation up on failure
                    pr.clear_request(reserved);
                    saw_fail = true;
                }
            }
        } else {
            pr.clear_request(reserved);
        }
        chk!(s, "at quiescence reserved == committed == pages granted", pr.reserved_pages() == granted_pages && pr.committed_pages() == granted_pages);
        chk!(s, "the cursor is the end of the granted pages", pr.cursor().as_usize() == next);
        step += 1;
    }
    // release everything: accounting and cursor return to the initial state
    unsafe { pr.reset() };
    chk!(s, "reset returns the resource to its initial state", pr.reserved_pages() == 0 && pr.committed_pages() == 0 && pr.cursor().as_usize() == start);
    let again = pr.get_new_pages(d, pr.reserve_pages(1), 1, tls);
    chk!(s, "after reset the first page of the space is granted again", matches!(again, Ok(ref r) if r.start.as_usize() == start));
    cov!(s, "a request failed for lack of space", saw_fail);
    cov!(s, "three grants", granted_pages >= 3 && next > start + BYTES_IN_CHUNK);
    cov!(s, "a grant crossed a chunk boundary", next > start + BYTES_IN_CHUNK && granted_pages < 1 << 11);
}

/// reset_cursor(top): the resource then accounts exactly the pages below `top`.
pub fn c28_reset_cursor(s: &mut Src) {
    let start = s.any_usize();
    s.assume(start & CHUNK_MASK == 0 && start >= BYTES_IN_CHUNK && start < (1usize << 46));
    let extent = 2 << LOG_BYTES_IN_CHUNK;
    let pr = MonotonePageResource::<VmA>::new_contiguous(unsafe { Address::from_usize(start) }, extent, &NOMAP);
    let a = s.any_in(1, 1 << 10);
    let r = pr.reserve_pages(a);
    let g = pr.get_new_pages(SpaceDescriptor::UNINITIALIZED, r, a, VMThread::UNINITIALIZED);
    s.assume(g.is_ok());
    let top = s.any_usize();
    s.assume(top >= start && top <= start + a * PAGE);
    pr.reset_cursor(unsafe { Address::from_usize(top) });
    let pages_below = (top - start + PAGE - 1) / PAGE;
    chk!(s, "after reset_cursor the accounting equals the pages below the new top", pr.reserved_pages() == pages_below && pr.committed_pages() == pages_below);
    chk!(s, "after reset_cursor the cursor is the page-aligned top", pr.cursor().as_usize() == start + pages_below * PAGE);
    cov!(s, "top in the middle of a page", (top - start) % PAGE != 0);
}

harnesses! {
    #[kani::unwind(6)] #[kani::stub(alloc::fmt::format, crate::env::stub_format)] c28_monotone_contiguous; // timeout=900
    #[kani::unwind(6)] #[kani::stub(alloc::fmt::format, crate::env::stub_format)] c28_reset_cursor; // timeout=900
}
