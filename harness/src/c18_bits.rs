//! C18 — concurrent mark / log / pin state changes succeed exactly once (rely/guarantee step).
//!
//! Real code: `MarkState::test_and_mark`, `ObjectBarrier::log_object` (hook), and (feature
//! `object_pinning`) `VMLocalPinningBitSpec::{pin_object, unpin_object}`, over the real
//! side/in-header accessors.  Same symbolic-interference encoding as C17 (hook H9): before every
//! atomic access `env_step` may (a) perform the *same transition on the same field* on behalf of
//! another thread, and (b) rewrite **every other bit of the same byte** arbitrarily (fields of
//! neighbouring objects / other specs share the byte) — which is what makes a load-then-CAS
//! sequence fail without the field itself having changed.
//! Oracle: the operation returns true iff *this* thread's CAS performed the transition; it
//! returns false only if the field had already been transitioned (initially or by the other
//! thread); on return the field is in the transitioned state; neighbouring bits hold exactly what
//! the environment last wrote (no stale write-back).  "Exactly once over N threads" then follows
//! on paper: a field makes at most one untransitioned->transitioned step while nobody reverts it.
//! Bounds: at most 3 interfering steps; sequentially consistent atomics.

use crate::env::*;
use crate::vm::*;
use crate::*;
use mmtk::plan::{BarrierSemantics, ObjectBarrier};
use mmtk::util::{Address, ObjectReference};
use mmtk::verif_export::protocols::*;
use mmtk::vm::{ObjectModel, VMBinding};

#[repr(C, align(64))]
pub struct Obj(pub [u8; 64]);

pub struct Env {
    src: *mut Src,
    byte: *mut u8,
    shift: u8,
    /// value of the field after the transition / before it
    to: u8,
    from: u8,
    budget: u8,
    active: bool,
    other_did_it: bool,
    /// the neighbouring bits as the environment last left them
    neigh: u8,
    steps: u8,
}
pub static mut ENV: Option<Env> = None;
pub static mut BUDGET: u8 = 3;

fn env_step(_a: Address) {
    let e = match unsafe { ENV.as_mut() } {
        Some(e) => e,
        None => return,
    };
    if !e.active || e.budget == 0 {
        return;
    }
    let s = unsafe { &mut *e.src };
    if !s.any_bool() {
        return;
    }
    e.budget -= 1;
    e.steps += 1;
    let mask = 1u8 << e.shift;
    unsafe {
        let cur = *e.byte;
        let field = (cur >> e.shift) & 1;
        // (b) neighbours: any value
        let n = s.any_u8() & !mask;
        e.neigh = n;
        // (a) the same transition by another thread, only from the untransitioned state
        let mut f = field;
        if field == e.from && s.any_bool() {
            f = e.to;
            e.other_did_it = true;
        }
        *e.byte = n | (f << e.shift);
    }
}

struct Setup {
    obj: ObjectReference,
    init_field: u8,
}

/// Install the environment for a 1-bit field at (byte, shift) with transition from -> to.
fn setup(s: &mut Src, obj_addr: usize, byte: *mut u8, shift: u8, from: u8, to: u8) -> Setup {
    let init = unsafe { *byte };
    unsafe {
        ENV = Some(Env { src: s as *mut Src, byte, shift, to, from, budget: BUDGET, active: true, other_did_it: false, neigh: init & !(1 << shift), steps: 0 });
        verif_env::STEP = Some(env_step);
    }
    Setup { obj: unsafe { ObjectReference::from_raw_address_unchecked(Address::from_usize(obj_addr)) }, init_field: (init >> shift) & 1 }
}

fn finish(s: &mut Src, st: &Setup, did: bool, what_true: &'static str) {
    let e = unsafe { ENV.as_mut().unwrap() };
    e.active = false;
    let byte = unsafe { *e.byte };
    let field = (byte >> e.shift) & 1;
    let already = st.init_field == e.to;
    let _ = what_true;
    chk!(s, "reports success only if this thread itself performed the transition", !(did && (already || e.other_did_it)));
    chk!(s, "reports failure only if the field had already been transitioned", did || already || e.other_did_it);
    chk!(s, "on return the field is in the transitioned state", field == e.to);
    chk!(s, "neighbouring bits of the byte hold what the other threads last wrote", byte & !(1 << e.shift) == e.neigh);
    cov!(s, "this thread performed the transition after interference", did && e.steps >= 1);
    cov!(s, "another thread performed the transition first", !did && e.other_did_it);
    cov!(s, "neighbouring bits changed between this thread's load and CAS", e.steps >= 2);
    unsafe {
        verif_env::STEP = None;
    }
}

fn side_spec_of(m: &mmtk::util::metadata::MetadataSpec) -> mmtk::util::metadata::side_metadata::SideMetadataSpec {
    match *m {
        mmtk::util::metadata::MetadataSpec::OnSide(sp) => sp,
        _ => unreachable!(),
    }
}

// ---------------------------------------------------------------- mark bit

/// Side mark bit (1 bit per 8 bytes, 8 objects per byte); object index symbolic.
pub fn c18_mark_side(s: &mut Src) {
    let mut o = Obj(s.any_bytes::<64>());
    let mut win = Win::<16>(s.any_bytes::<16>());
    let base = o.0.as_mut_ptr() as usize;
    win.install(&side_spec_of(<VmA as VMBinding>::VMObjectModel::LOCAL_MARK_BIT_SPEC.as_spec()), base);
    let idx = s.any_in(0, 7);
    let st = setup(s, base + 8 * idx, win.0.as_mut_ptr(), idx as u8, 0, 1);
    let ms = MarkState::new();
    let did = ms.test_and_mark::<VmA>(st.obj);
    finish(s, &st, did, "marked");
}

/// In-header mark bit (bit 2 of the header byte, next to the forwarding bits, pin, LOS and log bits).
pub fn c18_mark_header(s: &mut Src) {
    let mut o = Obj(s.any_bytes::<64>());
    let p = o.0.as_mut_ptr();
    let st = setup(s, p as usize + 8, unsafe { p.add(8) }, 2, 0, 1);
    let ms = MarkState::new();
    let did = ms.test_and_mark::<VmH>(st.obj);
    finish(s, &st, did, "marked");
}

/// In-header mark bit after an odd number of collections: `on_global_release` has flipped the
/// marked state to 0, so marking is the transition 1 -> 0.
pub fn c18_mark_header_flipped(s: &mut Src) {
    let mut o = Obj(s.any_bytes::<64>());
    let p = o.0.as_mut_ptr();
    let st = setup(s, p as usize + 8, unsafe { p.add(8) }, 2, 1, 0);
    let mut ms = MarkState::new();
    ms.on_global_release::<VmH>();
    let was_marked = st.init_field == 0;
    unsafe { ENV.as_mut().unwrap().active = false };
    chk!(s, "after the flip is_marked reads the flipped state", ms.is_marked::<VmH>(st.obj) == was_marked);
    unsafe { ENV.as_mut().unwrap().active = true };
    let did = ms.test_and_mark::<VmH>(st.obj);
    finish(s, &st, did, "marked");
}
/// Side mark bit: `on_global_release` does not flip the state (the bits are bulk-zeroed instead).
pub fn c18_mark_side_after_release(s: &mut Src) {
    let mut o = Obj(s.any_bytes::<64>());
    let mut win = Win::<16>(s.any_bytes::<16>());
    let base = o.0.as_mut_ptr() as usize;
    win.install(&side_spec_of(<VmA as VMBinding>::VMObjectModel::LOCAL_MARK_BIT_SPEC.as_spec()), base);
    let idx = s.any_in(0, 7);
    let st = setup(s, base + 8 * idx, win.0.as_mut_ptr(), idx as u8, 0, 1);
    let mut ms = MarkState::new();
    ms.on_global_release::<VmA>();
    let did = ms.test_and_mark::<VmA>(st.obj);
    finish(s, &st, did, "marked");
}

// ---------------------------------------------------------------- log bit (object barrier)

pub struct Sem<VM: VMBinding>(core::marker::PhantomData<VM>);
unsafe impl<VM: VMBinding> Send for Sem<VM> {}
impl<VM: VMBinding> BarrierSemantics for Sem<VM> {
    type VM = VM;
    fn flush(&mut self) {}
    fn object_reference_write_slow(&mut self, _src: ObjectReference, _slot: VM::VMSlot, _target: Option<ObjectReference>) {}
    fn memory_region_copy_slow(&mut self, _src: VM::VMMemorySlice, _dst: VM::VMMemorySlice) {}
}

/// Side unlog bit: logging is the transition 1 (unlogged) -> 0 (logged).
pub fn c18_log_side(s: &mut Src) {
    let mut o = Obj(s.any_bytes::<64>());
    let mut win = Win::<16>(s.any_bytes::<16>());
    let base = o.0.as_mut_ptr() as usize;
    win.install(&side_spec_of(<VmA as VMBinding>::VMObjectModel::GLOBAL_LOG_BIT_SPEC.as_spec()), base);
    let idx = s.any_in(0, 7);
    let st = setup(s, base + 8 * idx, win.0.as_mut_ptr(), idx as u8, 1, 0);
    let b = ObjectBarrier::new(Sem::<VmA>(core::marker::PhantomData));
    let did = b.verif_log_object(st.obj);
    finish(s, &st, did, "logged");
}

/// In-header unlog bit (bit 6 of the header byte).
pub fn c18_log_header(s: &mut Src) {
    let mut o = Obj(s.any_bytes::<64>());
    let p = o.0.as_mut_ptr();
    let st = setup(s, p as usize + 8, unsafe { p.add(8) }, 6, 1, 0);
    let b = ObjectBarrier::new(Sem::<VmH>(core::marker::PhantomData));
    let did = b.verif_log_object(st.obj);
    finish(s, &st, did, "logged");
}

// ---------------------------------------------------------------- pin bit

#[cfg(feature = "object_pinning")]
pub fn c18_pin_side(s: &mut Src) {
    let mut o = Obj(s.any_bytes::<64>());
    let mut win = Win::<16>(s.any_bytes::<16>());
    let base = o.0.as_mut_ptr() as usize;
    win.install(&side_spec_of(<VmA as VMBinding>::VMObjectModel::LOCAL_PINNING_BIT_SPEC.as_spec()), base);
    let idx = s.any_in(0, 7);
    let st = setup(s, base + 8 * idx, win.0.as_mut_ptr(), idx as u8, 0, 1);
    let did = <VmA as VMBinding>::VMObjectModel::LOCAL_PINNING_BIT_SPEC.pin_object::<VmA>(st.obj);
    finish(s, &st, did, "pinned");
}
#[cfg(feature = "object_pinning")]
pub fn c18_unpin_side(s: &mut Src) {
    let mut o = Obj(s.any_bytes::<64>());
    let mut win = Win::<16>(s.any_bytes::<16>());
    let base = o.0.as_mut_ptr() as usize;
    win.install(&side_spec_of(<VmA as VMBinding>::VMObjectModel::LOCAL_PINNING_BIT_SPEC.as_spec()), base);
    let idx = s.any_in(0, 7);
    let st = setup(s, base + 8 * idx, win.0.as_mut_ptr(), idx as u8, 1, 0);
    let did = <VmA as VMBinding>::VMObjectModel::LOCAL_PINNING_BIT_SPEC.unpin_object::<VmA>(st.obj);
    finish(s, &st, did, "unpinned");
}
#[cfg(feature = "object_pinning")]
pub fn c18_pin_header(s: &mut Src) {
    let mut o = Obj(s.any_bytes::<64>());
    let p = o.0.as_mut_ptr();
    let st = setup(s, p as usize + 8, unsafe { p.add(8) }, 3, 0, 1);
    let did = <VmH as VMBinding>::VMObjectModel::LOCAL_PINNING_BIT_SPEC.pin_object::<VmH>(st.obj);
    finish(s, &st, did, "pinned");
}
#[cfg(not(feature = "object_pinning"))]
pub fn c18_pin_side(_s: &mut Src) {}
#[cfg(not(feature = "object_pinning"))]
pub fn c18_unpin_side(_s: &mut Src) {}
#[cfg(not(feature = "object_pinning"))]
pub fn c18_pin_header(_s: &mut Src) {}


// ---------------------------------------------------------------- large-object mark/nursery bits

/// `LargeObjectSpace::test_and_mark` (hook `verif_test_and_mark`): a 2-bit field (mark bit 0,
/// nursery bit 1).  In a full-heap GC only the mark bit is compared with the wanted state; in a
/// nursery GC both bits are.  A successful transition writes `value` to the whole field (the
/// nursery bit is cleared).  Other threads may perform the same transition and rewrite every
/// other bit of the byte.
pub struct EnvLos {
    src: *mut Src,
    byte: *mut u8,
    shift: u8,
    value: u8,
    cmp: u8,
    budget: u8,
    active: bool,
    other_did_it: bool,
    neigh: u8,
    steps: u8,
}
pub static mut ENV_LOS: Option<EnvLos> = None;

fn env_step_los(_a: Address) {
    let e = match unsafe { ENV_LOS.as_mut() } {
        Some(e) => e,
        None => return,
    };
    if !e.active || e.budget == 0 {
        return;
    }
    let s = unsafe { &mut *e.src };
    if !s.any_bool() {
        return;
    }
    e.budget -= 1;
    e.steps += 1;
    let mask = 0b11u8 << e.shift;
    unsafe {
        let cur = *e.byte;
        let field = (cur >> e.shift) & 0b11;
        let n = s.any_u8() & !mask;
        e.neigh = n;
        let mut f = field;
        if (field & e.cmp) != e.value && s.any_bool() {
            f = e.value;
            e.other_did_it = true;
        }
        *e.byte = n | (f << e.shift);
    }
}

fn los_case<VM: VMBinding>(s: &mut Src, obj_addr: usize, byte: *mut u8, shift: u8) {
    let nursery_gc = s.any_bool();
    let value = s.any_in(0, 1) as u8;
    let cmp = if nursery_gc { 0b11 } else { 0b01 };
    let init = unsafe { *byte };
    let init_field = (init >> shift) & 0b11;
    unsafe {
        ENV_LOS = Some(EnvLos { src: s as *mut Src, byte, shift, value, cmp, budget: BUDGET, active: true, other_did_it: false, neigh: init & !(0b11 << shift), steps: 0 });
        verif_env::STEP = Some(env_step_los);
    }
    let obj = unsafe { ObjectReference::from_raw_address_unchecked(Address::from_usize(obj_addr)) };
    let did = mmtk::verif_export::policy::los_test_and_mark::<VM>(nursery_gc, obj, value);
    let e = unsafe { ENV_LOS.as_mut().unwrap() };
    e.active = false;
    let b = unsafe { *e.byte };
    let field = (b >> shift) & 0b11;
    let already = (init_field & cmp) == value;
    chk!(s, "reports success only if this thread itself performed the transition", !(did && (already || e.other_did_it)));
    chk!(s, "reports failure only if the object had already been marked", did || already || e.other_did_it);
    chk!(s, "on return the compared bits are in the wanted state", (field & cmp) == value);
    chk!(s, "a performed transition leaves the mark state with the nursery bit cleared", !(did || e.other_did_it) || field == value);
    chk!(s, "an object that was already marked keeps its field", !already || field == init_field);
    chk!(s, "neighbouring bits of the byte hold what the other threads last wrote", b & !(0b11 << shift) == e.neigh);
    cov!(s, "this thread performed the transition after interference", did && e.steps >= 1);
    cov!(s, "another thread performed the transition first", !did && e.other_did_it);
    cov!(s, "a nursery object is marked in a nursery collection", did && nursery_gc && init_field & 0b10 != 0);
    cov!(s, "a full-heap collection with the flipped mark state", did && !nursery_gc && value == 0);
    cov!(s, "neighbouring bits changed between this thread's load and CAS", e.steps >= 2);
    unsafe {
        verif_env::STEP = None;
    }
}

/// Side LOS bits: 2 bits per *page* (large objects are page-granular), 4 pages per metadata byte.
/// The spec never touches the object itself, so the pages are addresses only (concrete 16 KiB-
/// aligned base, symbolic page index).
pub fn c18_los_side(s: &mut Src) {
    let mut win = Win::<16>(s.any_bytes::<16>());
    let base = 0x4000_0000usize;
    let spec = side_spec_of(<VmA as VMBinding>::VMObjectModel::LOCAL_LOS_MARK_NURSERY_SPEC.as_spec());
    win.install(&spec, base);
    let idx = s.any_in(0, 3);
    los_case::<VmA>(s, base + (idx << spec.log_bytes_in_region), win.0.as_mut_ptr(), 2 * idx as u8);
}

/// In-header LOS bits (bits 4-5 of the header byte, between the pin bit and the log bit).
pub fn c18_los_header(s: &mut Src) {
    let mut o = Obj(s.any_bytes::<64>());
    let p = o.0.as_mut_ptr();
    los_case::<VmH>(s, p as usize + 8, unsafe { p.add(8) }, 4);
}

/// Thorough tier: 5 interfering steps.
pub fn c18_mark_side_deep(s: &mut Src) {
    unsafe {
        BUDGET = 5;
    }
    c18_mark_side(s)
}
pub fn c18_log_header_deep(s: &mut Src) {
    unsafe {
        BUDGET = 5;
    }
    c18_log_header(s)
}
pub fn c18_pin_side_deep(s: &mut Src) {
    unsafe {
        BUDGET = 5;
    }
    c18_pin_side(s)
}

harnesses! {
    #[kani::unwind(6)] #[kani::stub(alloc::fmt::format, crate::env::stub_format)] c18_mark_side; // timeout=900
    #[kani::unwind(6)] #[kani::stub(alloc::fmt::format, crate::env::stub_format)] c18_mark_header; // timeout=900
    #[kani::unwind(6)] #[kani::stub(alloc::fmt::format, crate::env::stub_format)] c18_mark_header_flipped; // timeout=900
    #[kani::unwind(6)] #[kani::stub(alloc::fmt::format, crate::env::stub_format)] c18_mark_side_after_release; // timeout=900
    #[kani::unwind(6)] #[kani::stub(alloc::fmt::format, crate::env::stub_format)] c18_log_side; // timeout=900
    #[kani::unwind(6)] #[kani::stub(alloc::fmt::format, crate::env::stub_format)] c18_log_header; // timeout=900
    #[kani::unwind(6)] #[kani::stub(alloc::fmt::format, crate::env::stub_format)] c18_pin_side; // timeout=900 features=object_pinning
    #[kani::unwind(6)] #[kani::stub(alloc::fmt::format, crate::env::stub_format)] c18_unpin_side; // timeout=900 features=object_pinning
    #[kani::unwind(6)] #[kani::stub(alloc::fmt::format, crate::env::stub_format)] c18_pin_header; // timeout=900 features=object_pinning
    #[kani::unwind(6)] #[kani::stub(alloc::fmt::format, crate::env::stub_format)] c18_los_side; // timeout=900
    #[kani::unwind(6)] #[kani::stub(alloc::fmt::format, crate::env::stub_format)] c18_los_header; // timeout=900
    #[kani::unwind(8)] #[kani::stub(alloc::fmt::format, crate::env::stub_format)] c18_mark_side_deep; // tier=thorough timeout=1800
    #[kani::unwind(8)] #[kani::stub(alloc::fmt::format, crate::env::stub_format)] c18_log_header_deep; // tier=thorough timeout=1800
    #[kani::unwind(8)] #[kani::stub(alloc::fmt::format, crate::env::stub_format)] c18_pin_side_deep; // tier=thorough timeout=1800 features=object_pinning
}
