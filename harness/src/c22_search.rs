//! C22 — side-metadata search and scan agree with a naive scan.
//!
//! Real code: `SideMetadataSpec::{find_prev_non_zero_value, find_next_non_zero_value,
//! scan_non_zero_values}` (public entry points: in the dev profile the first two run `*_fast`
//! **and** `*_simple` and `assert_eq!` them — that internal assertion is one oracle),
//! `find_last/first_non_zero_bit_in_metadata_bytes/bits`, `scan_non_zero_bits_in_metadata_*`,
//! `align_metadata_address`, `contiguous_meta_address_to_address`, `ranges::break_bit_range`.
//! Second, independent oracle: a region-by-region loop in the harness over the documented range.
//! Environment: E1 (base address) and E3 (the global MMAPPER is the harness object; the data range
//! and the metadata window are both mapped or both unmapped).

use crate::env::*;
use crate::*;
use mmtk::util::metadata::side_metadata::SideMetadataSpec;
use mmtk::util::Address;

pub const DATA_BASE: usize = 1 << 40;

fn field<const W: usize>(w: &[u8; W], i: usize, b: usize) -> u8 {
    // b <= 3: fields never straddle a byte
    let p = i << b;
    let width = 1usize << b;
    let v = w[p >> 3] >> (p & 7);
    if width == 8 { v } else { v & ((1u8 << width) - 1) }
}

struct WinCopy<const W: usize>(pub [u8; W]);
struct Setup<const W: usize> {
    sp: SideMetadataSpec,
    win: WinCopy<W>,
    b: usize,
    r: usize,
    nfields: usize,
    mapped: bool,
}

fn setup<const W: usize>(s: &mut Src, b_lo: usize, b_hi: usize, r_lo: usize, r_hi: usize) -> Setup<W> {
    install_mmapper();
    // concrete when the harness fixes the shape (symbolic-but-constrained values would turn every
    // shift in the address arithmetic into a barrel shifter)
    let b = if b_lo == b_hi { b_lo } else { s.any_usize() };
    let r = if r_lo == r_hi { r_lo } else { s.any_usize() };
    s.assume(b >= b_lo && b <= b_hi && r >= r_lo && r <= r_hi);
    let sp = spec(0, b, r);
    let bytes = s.any_bytes::<W>();
    let mut k = 0;
    while k < W {
        unsafe { SWIN.0[k] = bytes[k] };
        k += 1;
    }
    swin_install(&sp, DATA_BASE);
    let win = WinCopy(bytes);
    let nfields = (W * 8) >> b;
    let mapped = s.any_bool();
    unsafe {
        if mapped {
            MAPPED[0] = (DATA_BASE, DATA_BASE + (nfields << r));
            MAPPED[1] = (swin_base(), swin_base() + W);
        }
    }
    Setup { sp, win, b, r, nfields, mapped }
}

fn find_prev<const W: usize>(s: &mut Src, b_lo: usize, b_hi: usize, r_lo: usize, r_hi: usize) {
    let st = setup::<W>(s, b_lo, b_hi, r_lo, r_hi);
    let (b, r) = (st.b, st.r);
    let off = s.any_usize();
    let limit = s.any_usize();
    s.assume(off < st.nfields << r);
    // the searched range (data_addr - limit, data_addr] stays inside the window's data range
    s.assume(limit >= 1 && limit <= off + 1);
    let data_addr = DATA_BASE + off;
    let got = unsafe { st.sp.find_prev_non_zero_value::<u8>(Address::from_usize(data_addr), limit) };
    // naive oracle: region starts a with data_addr - limit < a <= data_addr, highest first
    let mut want: Option<usize> = None;
    let mut i = st.nfields;
    while i > 0 {
        i -= 1;
        let a = DATA_BASE + (i << r);
        if want.is_none() && st.mapped && a <= data_addr && a + limit > data_addr && field(&st.win.0, i, b) != 0 {
            want = Some(a);
        }
    }
    chk!(s, "find_prev returns exactly what a region-by-region scan returns", got.map(|a| a.as_usize()) == want);
    cov!(s, "found in an earlier byte", want.is_some() && (((want.unwrap_or(0) - DATA_BASE) >> r) << b) >> 3 < (((off >> r) << b) >> 3));
    cov!(s, "found two bytes earlier", want.is_some() && ((((want.unwrap_or(0) - DATA_BASE) >> r) << b) >> 3) + 2 == (((off >> r) << b) >> 3));
    cov!(s, "not found although some bit is set in the window", want.is_none() && st.mapped && st.win.0[0] != 0);
    cov!(s, "unaligned data address", off & ((1 << r) - 1) != 0 || r == 0);
    cov!(s, "unmapped", !st.mapped);
    cov!(s, "search limited to the region of the data address", want.is_none() && st.mapped && limit <= (1 << r));
}

fn find_next<const W: usize>(s: &mut Src, b_lo: usize, b_hi: usize, r_lo: usize, r_hi: usize) {
    let st = setup::<W>(s, b_lo, b_hi, r_lo, r_hi);
    let (b, r) = (st.b, st.r);
    let off = s.any_usize();
    let limit = s.any_usize();
    let total = st.nfields << r;
    s.assume(off < total);
    // [data_addr, data_addr + limit) stays inside the window's data range
    s.assume(limit >= 1 && limit <= total - off);
    let data_addr = DATA_BASE + off;
    let got = unsafe { st.sp.find_next_non_zero_value::<u8>(Address::from_usize(data_addr), limit) };
    // naive oracle: regions from the one containing data_addr, region start < data_addr + limit
    let mut want: Option<usize> = None;
    let mut i = 0;
    while i < st.nfields {
        let a = DATA_BASE + (i << r);
        if want.is_none() && st.mapped && a + (1 << r) > data_addr && a < data_addr + limit && field(&st.win.0, i, b) != 0 {
            want = Some(a);
        }
        i += 1;
    }
    chk!(s, "find_next returns exactly what a region-by-region scan returns", got.map(|a| a.as_usize()) == want);
    cov!(s, "found in a later byte", want.is_some() && (((want.unwrap_or(0) - DATA_BASE) >> r) << b) >> 3 > (((off >> r) << b) >> 3));
    cov!(s, "not found although a later bit is set", want.is_none() && st.mapped && st.win.0[W - 1] != 0);
    cov!(s, "unaligned data address", off & ((1 << r) - 1) != 0 || r == 0);
    cov!(s, "unmapped", !st.mapped);
}

fn scan<const W: usize>(s: &mut Src, b_lo: usize, b_hi: usize, r_lo: usize, r_hi: usize) {
    scan_in::<W>(s, b_lo, b_hi, r_lo, r_hi, None)
}

fn scan_in<const W: usize>(s: &mut Src, b_lo: usize, b_hi: usize, r_lo: usize, r_hi: usize, fixed: Option<(usize, usize)>) {
    let st = setup::<W>(s, b_lo, b_hi, r_lo, r_hi);
    s.assume(st.mapped); // documented: the data address range must be fully mapped
    let (b, r) = (st.b, st.r);
    let (first, count) = match fixed {
        Some(fc) => fc,
        None => (s.any_usize(), s.any_usize()),
    };
    s.assume(first <= st.nfields && count <= st.nfields - first);
    let start = DATA_BASE + (first << r);
    let end = DATA_BASE + ((first + count) << r);
    // Every visit must be a region-aligned address inside the range whose field is non-zero, visits
    // must be strictly ascending (hence no duplicates), and their number must equal the number of
    // non-zero fields in the range: together that is "exactly the naive scan's list, in order".
    let bytes = st.win.0;
    let mut all_valid = true;
    let mut order_ok = true;
    let mut last: usize = 0;
    let mut n = 0usize;
    st.sp.scan_non_zero_values::<u8>(unsafe { Address::from_usize(start) }, unsafe { Address::from_usize(end) }, &mut |a: Address| {
        let a = a.as_usize();
        let aligned = a >= start && a < end && (a - DATA_BASE) & ((1 << r) - 1) == 0;
        let i = if aligned { (a - DATA_BASE) >> r } else { 0 };
        all_valid &= aligned && {
            let p = i << b;
            let width = 1usize << b;
            let v = bytes[(p >> 3) % W] >> (p & 7);
            (if width == 8 { v } else { v & ((1u8 << width) - 1) }) != 0
        };
        order_ok &= n == 0 || a > last;
        last = a;
        n += 1;
    });
    let mut want = 0usize;
    let mut i = 0;
    while i < W * 8 {
        if i < st.nfields && i >= first && i < first + count && field(&st.win.0, i, b) != 0 {
            want += 1;
        }
        i += 1;
    }
    chk!(s, "scan visits only region-aligned addresses of the range whose field is non-zero", all_valid);
    chk!(s, "scan visits regions in strictly ascending address order", order_ok);
    chk!(s, "scan visits exactly as many regions as the naive scan finds", n == want);
    // (covers are emitted unconditionally: a cover in a branch that is dead for one variant counts as vacuity)
    let sym = fixed.is_none();
    cov!(s, "three or more regions visited", !sym || n >= 3);
    cov!(s, "range starts and ends mid-byte", !sym || (b < 3 && (first << b) & 7 != 0 && ((first + count) << b) & 7 != 0 && ((first + count) << b) >> 3 > ((first << b) >> 3) + 1));
    cov!(s, "empty range", !sym || count == 0);
    cov!(s, "a non-zero region just outside the range is not visited", !sym || (first > 0 && field(&st.win.0, first - 1, b) != 0 && count > 0));
    cov!(s, "fixed range: a non-zero region right after the range is not visited", sym || (first + count < st.nfields && field(&st.win.0, first + count, b) != 0));
}

/// Frame condition on concrete sub-word ranges of one 8-byte metadata word with symbolic contents:
/// whole-byte sub-ranges that start at an unaligned byte and end before the word boundary, ranges
/// with bit heads/tails, a same-byte range and the whole word.  Added after seed C22-c (the head
/// loop of the byte scan running on to the word boundary), which the symbolic-range harness only
/// answers with resource exhaustion.
pub fn c22_scan_vo_fixed(s: &mut Src) {
    const RANGES: [(usize, usize); 6] = [(8, 8), (8, 16), (4, 16), (12, 3), (24, 32), (0, 64)];
    let mut k = 0;
    while k < RANGES.len() {
        scan_in::<8>(s, 0, 0, 3, 3, Some(RANGES[k]));
        k += 1;
    }
}

// VO-bit shape: 1 bit per 8-byte word.  Quick tier: 3-byte bitmap (byte and bit paths).
pub fn c22_find_prev_vo(s: &mut Src) {
    find_prev::<3>(s, 0, 0, 3, 3)
}
pub fn c22_find_next_vo(s: &mut Src) {
    find_next::<3>(s, 0, 0, 3, 3)
}
pub fn c22_scan_vo(s: &mut Src) {
    scan::<3>(s, 0, 0, 3, 3)
}
// Thorough tier: 9-byte bitmap = one aligned 8-byte word plus a tail byte (word-at-a-time path).
pub fn c22_find_prev_vo_word(s: &mut Src) {
    find_prev::<9>(s, 0, 0, 3, 3)
}
pub fn c22_find_next_vo_word(s: &mut Src) {
    find_next::<9>(s, 0, 0, 3, 3)
}
pub fn c22_scan_vo_word(s: &mut Src) {
    scan::<9>(s, 0, 0, 3, 3)
}
// Other widths (2, 4, 8 bits) and region sizes on a 3-byte table slice.
pub fn c22_find_prev_multi(s: &mut Src) {
    find_prev::<3>(s, 1, 3, 0, 6)
}
pub fn c22_find_next_multi(s: &mut Src) {
    find_next::<3>(s, 1, 3, 0, 6)
}
pub fn c22_scan_multi(s: &mut Src) {
    scan::<3>(s, 1, 3, 0, 6)
}

harnesses! {
    #[kani::unwind(26)] #[kani::stub(alloc::fmt::format, crate::env::stub_format)] #[kani::stub(mmtk::util::Address::load, crate::env::stub_addr_load)] #[kani::stub(mmtk::util::Address::is_mapped, crate::env::stub_is_mapped)] c22_find_prev_vo; // loops=in_metadata_bytes:5 timeout=900
    #[kani::unwind(26)] #[kani::stub(alloc::fmt::format, crate::env::stub_format)] #[kani::stub(mmtk::util::Address::load, crate::env::stub_addr_load)] #[kani::stub(mmtk::util::Address::is_mapped, crate::env::stub_is_mapped)] c22_find_next_vo; // loops=in_metadata_bytes:5 timeout=900
    #[kani::unwind(26)] #[kani::stub(alloc::fmt::format, crate::env::stub_format)] #[kani::stub(mmtk::util::Address::load, crate::env::stub_addr_load)] #[kani::stub(mmtk::util::Address::is_mapped, crate::env::stub_is_mapped)] c22_scan_vo; // loops=in_metadata_bytes:5+in_metadata_word:10 timeout=900
    #[kani::unwind(66)] #[kani::stub(alloc::fmt::format, crate::env::stub_format)] #[kani::stub(mmtk::util::Address::load, crate::env::stub_addr_load)] #[kani::stub(mmtk::util::Address::is_mapped, crate::env::stub_is_mapped)] c22_scan_vo_fixed; // loops=in_metadata_bytes:10+in_metadata_word:10 timeout=900
    #[kani::unwind(74)] #[kani::stub(alloc::fmt::format, crate::env::stub_format)] #[kani::stub(mmtk::util::Address::load, crate::env::stub_addr_load)] #[kani::stub(mmtk::util::Address::is_mapped, crate::env::stub_is_mapped)] c22_find_prev_vo_word; // tier=thorough loops=in_metadata_bytes:11 timeout=2400
    #[kani::unwind(74)] #[kani::stub(alloc::fmt::format, crate::env::stub_format)] #[kani::stub(mmtk::util::Address::load, crate::env::stub_addr_load)] #[kani::stub(mmtk::util::Address::is_mapped, crate::env::stub_is_mapped)] c22_find_next_vo_word; // tier=thorough loops=in_metadata_bytes:11 timeout=2400
    #[kani::unwind(74)] #[kani::stub(alloc::fmt::format, crate::env::stub_format)] #[kani::stub(mmtk::util::Address::load, crate::env::stub_addr_load)] #[kani::stub(mmtk::util::Address::is_mapped, crate::env::stub_is_mapped)] c22_scan_vo_word; // tier=wip loops=in_metadata_bytes:11+in_metadata_word:66 timeout=2400
    #[kani::unwind(26)] #[kani::stub(alloc::fmt::format, crate::env::stub_format)] #[kani::stub(mmtk::util::Address::load, crate::env::stub_addr_load)] #[kani::stub(mmtk::util::Address::is_mapped, crate::env::stub_is_mapped)] c22_find_prev_multi; // tier=thorough loops=in_metadata_bytes:5 timeout=2400
    #[kani::unwind(26)] #[kani::stub(alloc::fmt::format, crate::env::stub_format)] #[kani::stub(mmtk::util::Address::load, crate::env::stub_addr_load)] #[kani::stub(mmtk::util::Address::is_mapped, crate::env::stub_is_mapped)] c22_find_next_multi; // tier=thorough loops=in_metadata_bytes:5 timeout=2400
    #[kani::unwind(26)] #[kani::stub(alloc::fmt::format, crate::env::stub_format)] #[kani::stub(mmtk::util::Address::load, crate::env::stub_addr_load)] #[kani::stub(mmtk::util::Address::is_mapped, crate::env::stub_is_mapped)] c22_scan_multi; // tier=wip loops=in_metadata_bytes:5+in_metadata_word:10 timeout=2400
}
