//! C20 — side metadata behaves as an array of independent fixed-width integers.
//!
//! Real code: `SideMetadataSpec::{load, store, load_atomic, store_atomic, set_zero,
//! set_zero_atomic, compare_exchange_atomic, fetch_add/sub/and/or_atomic, fetch_update_atomic}`
//! with `address_to_meta_address`, `meta_byte_lshift`, `meta_byte_mask`, `fetch_ops_on_bits`, the
//! `MetadataValue` impls and the `Address` accessors, on a real 16-byte metadata window (E1: only
//! the write-once base address is chosen by the harness so that the window is the table slice for
//! `[DATA_BASE, DATA_BASE + regions << log_bytes_in_region)`).
//! Oracle: the window is an array of `128 >> log_bits` fields of `1 << log_bits` bits; each op
//! returns the previous value of its region's field and changes nothing else.

use crate::env::*;
use crate::*;
use atomic::Ordering::SeqCst;
use mmtk::util::metadata::side_metadata::SideMetadataSpec;
use mmtk::util::Address;

pub const DATA_BASE: usize = 1 << 40;

fn words(w: &Win<16>) -> [u64; 2] {
    unsafe { *(w.0.as_ptr() as *const [u64; 2]) }
}

/// Field `i` of width `1 << b` bits in the little-endian bit string of the window.
fn ref_get(w: [u64; 2], i: usize, b: usize) -> u64 {
    let width = 1usize << b;
    let p = i << b;
    let v = w[p >> 6] >> (p & 63);
    if width == 64 { v } else { v & ((1u64 << width) - 1) }
}
fn ref_set(mut w: [u64; 2], i: usize, b: usize, val: u64) -> [u64; 2] {
    let width = 1usize << b;
    let p = i << b;
    let sh = p & 63;
    let m = if width == 64 { !0u64 } else { ((1u64 << width) - 1) << sh };
    w[p >> 6] = (w[p >> 6] & !m) | ((val << sh) & m);
    w
}
fn eq2(a: [u64; 2], b: [u64; 2]) -> bool {
    a[0] == b[0] && a[1] == b[1]
}
fn trunc(v: u64, b: usize) -> u64 {
    if b == 6 { v } else { v & ((1u64 << (1usize << b)) - 1) }
}

/// One arbitrary operation on an arbitrary region of the window; checks result and frame.
macro_rules! one_op {
    ($s:expr, $t:ty, $spec:expr, $win:expr, $b:expr, $r:expr, $kinds:expr) => {{
        let s: &mut Src = $s;
        let spec: &SideMetadataSpec = $spec;
        let b: usize = $b;
        let nregions = 128usize >> b;
        let idx = s.any_usize();
        let sub = s.any_usize();
        s.assume(idx < nregions);
        s.assume(sub < (1usize << $r));
        // any address inside the region (not only its start) denotes the region's field
        let addr = unsafe { Address::from_usize(DATA_BASE + (idx << $r) + sub) };
        let pre = words($win);
        let field = ref_get(pre, idx, b);
        let v = s.any_u64();
        let v2 = s.any_u64();
        s.assume(v == trunc(v, b) && v2 == trunc(v2, b));
        let kind = s.any_u8();
        s.assume($kinds(kind));
        // (returned previous value if any, expected new field value)
        let (ret, expect): (Option<u64>, u64) = match kind {
            0 => (Some(unsafe { spec.load::<$t>(addr) } as u64), field),
            1 => (Some(spec.load_atomic::<$t>(addr, SeqCst) as u64), field),
            2 => {
                unsafe { spec.store::<$t>(addr, v as $t) };
                (None, v)
            }
            3 => {
                spec.store_atomic::<$t>(addr, v as $t, SeqCst);
                (None, v)
            }
            4 => {
                unsafe { spec.set_zero(addr) };
                (None, 0)
            }
            5 => {
                spec.set_zero_atomic(addr, SeqCst);
                (None, 0)
            }
            6 => {
                let r = spec.compare_exchange_atomic::<$t>(addr, v as $t, v2 as $t, SeqCst, SeqCst);
                chk!(s, "compare-exchange succeeds iff the field equals old", r.is_ok() == (field == v));
                cov!(s, "compare-exchange succeeded", r.is_ok());
                cov!(s, "compare-exchange failed", r.is_err());
                match r {
                    Ok(x) => (Some(x as u64), v2),
                    Err(x) => (Some(x as u64), field),
                }
            }
            7 => (Some(spec.fetch_add_atomic::<$t>(addr, v as $t, SeqCst) as u64), trunc(field.wrapping_add(v), b)),
            8 => (Some(spec.fetch_sub_atomic::<$t>(addr, v as $t, SeqCst) as u64), trunc(field.wrapping_sub(v), b)),
            9 => (Some(spec.fetch_and_atomic::<$t>(addr, v as $t, SeqCst) as u64), field & v),
            10 => (Some(spec.fetch_or_atomic::<$t>(addr, v as $t, SeqCst) as u64), field | v),
            11 => {
                let x = v as $t;
                let r = spec.fetch_update_atomic::<$t, _>(addr, SeqCst, SeqCst, move |old: $t| Some(old ^ x));
                chk!(s, "fetch_update with Some(_) reports Ok", r.is_ok());
                (Some(r.unwrap_or_else(|e| e) as u64), field ^ v)
            }
            _ => {
                let r = spec.fetch_update_atomic::<$t, _>(addr, SeqCst, SeqCst, move |_old: $t| None);
                chk!(s, "fetch_update with None reports Err", r.is_err());
                (Some(r.unwrap_or_else(|e| e) as u64), field)
            }
        };
        if let Some(x) = ret {
            chk!(s, "operation returns the previous value of its region's field", x == field);
        }
        chk!(s, "operation changes exactly its region's field", eq2(words($win), ref_set(pre, idx, b, expect)));
        cov!(s, "address not at the start of its region", sub != 0);
        cov!(s, "other fields of the window non-zero", { let o = ref_set(pre, idx, b, 0); (o[0] | o[1]) != 0 });
        (idx, kind)
    }};
}

macro_rules! c20_harness {
    ($name:ident, $t:ty, $bsel:expr, $kinds:expr) => {
        pub fn $name(s: &mut Src) {
            let b: usize = $bsel(s);
            let r = s.any_usize();
            s.assume(r <= 22);
            let offset = s.any_usize();
            s.assume(offset < (1usize << 40));
            let sp = spec(offset, b, r);
            let mut win = Win::<16>(s.any_bytes::<16>());
            win.install(&sp, DATA_BASE);
            // History of two operations on two independently chosen regions.
            let (i1, k1) = one_op!(s, $t, &sp, &mut win, b, r, $kinds);
            let (i2, k2) = one_op!(s, $t, &sp, &mut win, b, r, $kinds);
            cov!(s, "two operations on neighbouring regions", i1 + 1 == i2);
            cov!(s, "two operations on the same region", i1 == i2);
            cov!(s, "a write followed by a value-returning operation", k1 >= 2 && (k2 <= 1 || k2 >= 6));
            cov!(s, "large region size", r >= 12);
            cov!(s, "byte-granular regions", r == 0);
        }
    };
}

/// Thorough tier: histories of three operations.
macro_rules! c20_harness3 {
    ($name:ident, $t:ty, $bsel:expr, $kinds:expr) => {
        pub fn $name(s: &mut Src) {
            let b: usize = $bsel(s);
            let r = s.any_usize();
            s.assume(r <= 22);
            let sp = spec(0, b, r);
            let mut win = Win::<16>(s.any_bytes::<16>());
            win.install(&sp, DATA_BASE);
            let (i1, _k1) = one_op!(s, $t, &sp, &mut win, b, r, $kinds);
            let (i2, _k2) = one_op!(s, $t, &sp, &mut win, b, r, $kinds);
            let (i3, _k3) = one_op!(s, $t, &sp, &mut win, b, r, $kinds);
            cov!(s, "three operations on three neighbouring regions", i1 + 1 == i2 && i2 + 1 == i3);
            cov!(s, "first and last operation on the same region", i1 == i3 && i1 != i2);
        }
    };
}

fn any_sub_byte_log(s: &mut Src) -> usize {
    let b = s.any_usize();
    s.assume(b <= 2);
    b
}
fn all_kinds(k: u8) -> bool {
    k <= 12
}
fn rw_kinds(k: u8) -> bool {
    k <= 6
}
fn fetch_kinds(k: u8) -> bool {
    k >= 6 && k <= 12
}

c20_harness!(c20_bits_rw, u8, any_sub_byte_log, rw_kinds);
c20_harness!(c20_bits_fetch, u8, any_sub_byte_log, fetch_kinds);
c20_harness!(c20_u8, u8, |_s: &mut Src| 3usize, all_kinds);
c20_harness!(c20_u16, u16, |_s: &mut Src| 4usize, all_kinds);
c20_harness!(c20_u32, u32, |_s: &mut Src| 5usize, all_kinds);
c20_harness!(c20_u64, u64, |_s: &mut Src| 6usize, all_kinds);
c20_harness3!(c20_bits_rw_3ops, u8, any_sub_byte_log, rw_kinds);
c20_harness3!(c20_bits_fetch_3ops, u8, any_sub_byte_log, fetch_kinds);
c20_harness3!(c20_u16_3ops, u16, |_s: &mut Src| 4usize, all_kinds);

harnesses! {
    #[kani::unwind(4)] c20_bits_rw;
    #[kani::unwind(4)] c20_bits_fetch;
    #[kani::unwind(4)] c20_u8;
    #[kani::unwind(4)] c20_u16;
    #[kani::unwind(4)] c20_u32;
    #[kani::unwind(4)] c20_u64;
    #[kani::unwind(4)] c20_bits_rw_3ops; // tier=thorough timeout=2400
    #[kani::unwind(4)] c20_bits_fetch_3ops; // tier=thorough timeout=2400
    #[kani::unwind(4)] c20_u16_3ops; // tier=thorough timeout=2400
}
