//! C08 — interior-pointer and conservative lookups resolve to the right object (VO-bit kernel).
//!
//! Real code (feature `vo_bit`): `vo_bit::{is_vo_bit_set_for_addr, find_object_from_internal_pointer,
//! is_internal_ptr_from_vo_bit, get_object_ref_for_vo_addr, is_vo_addr}` ->
//! `SideMetadataSpec::{is_mapped, load_atomic, find_prev_non_zero_value}` on a 3-byte VO bitmap
//! (24 words = 192 bytes of heap) holding up to two non-overlapping objects with symbolic start
//! and size.  Environment as in C22 (E1 base, E2 window loads, E3 mapped predicate).
//! Oracle: `is_vo_bit_set_for_addr(a) == Some(o)` iff `a` is an object reference;
//! `find_object_from_internal_pointer(p, n) == Some(o)` iff `o <= p < o + size(o)` and `p - o < n`.

use crate::env::*;
use crate::vm::*;
use crate::*;
use mmtk::util::metadata::side_metadata::verif::spec_defs::VO_BIT;
use mmtk::util::metadata::vo_bit::verif::*;
use mmtk::util::Address;

pub const DATA_BASE: usize = 1 << 40;
const WBYTES: usize = 3;
const WORDS: usize = WBYTES * 8;

struct Heap {
    o1: usize,
    s1: usize,
    o2: usize,
    s2: usize,
    two: bool,
    mapped: bool,
}

fn setup(s: &mut Src, win: Option<&mut Win<WBYTES>>) -> Heap {
    install_mmapper();
    let spec = VO_BIT;
    // two objects (word index, size in words), the second optional, non-overlapping, in order
    let w1 = s.any_in(0, WORDS - 2);
    let n1 = s.any_in(2, WORDS);
    let two = s.any_bool();
    let w2 = s.any_in(0, WORDS - 2);
    let n2 = s.any_in(2, WORDS);
    s.assume(w1 + n1 <= WORDS);
    s.assume(!two || (w2 >= w1 + n1 && w2 + n2 <= WORDS));
    let mut bytes = [0u8; WBYTES];
    let mut k = 0;
    while k < WBYTES {
        let mut b = 0u8;
        let mut j = 0;
        while j < 8 {
            let w = k * 8 + j;
            if w == w1 || (two && w == w2) {
                b |= 1 << j;
            }
            j += 1;
        }
        unsafe { SWIN.0[k] = b };
        bytes[k] = b;
        k += 1;
    }
    let meta_base = match win {
        Some(w) => {
            // real memory (atomic loads are not redirected by the E2 stub)
            w.0 = bytes;
            w.install(&spec, DATA_BASE);
            w.addr()
        }
        None => {
            swin_install(&spec, DATA_BASE);
            swin_base()
        }
    };
    let mapped = s.any_bool();
    unsafe {
        if mapped {
            MAPPED[0] = (DATA_BASE, DATA_BASE + WORDS * 8);
            MAPPED[1] = (meta_base, meta_base + WBYTES);
        }
        crate::vm::OBJ_TABLE[0] = (DATA_BASE + w1 * 8, n1 * 8);
        crate::vm::OBJ_TABLE[1] = if two { (DATA_BASE + w2 * 8, n2 * 8) } else { (0, 0) };
    }
    Heap { o1: DATA_BASE + w1 * 8, s1: n1 * 8, o2: DATA_BASE + w2 * 8, s2: n2 * 8, two, mapped }
}

pub fn c08_is_object(s: &mut Src) {
    let mut win = Win::<WBYTES>([0; WBYTES]);
    let h = setup(s, Some(&mut win));
    let w = s.any_in(0, WORDS - 1);
    let a = DATA_BASE + w * 8;
    let got = is_vo_bit_set_for_addr(unsafe { Address::from_usize(a) }).map(|o| o.to_raw_address().as_usize());
    let is_ref = h.mapped && (a == h.o1 || (h.two && a == h.o2));
    chk!(s, "a word-aligned address is reported as an object iff it is an object reference", got == if is_ref { Some(a) } else { None });
    cov!(s, "address inside an object but not its reference", h.mapped && a > h.o1 && a < h.o1 + h.s1);
    cov!(s, "address is the second object's reference", h.mapped && h.two && a == h.o2);
    cov!(s, "unmapped", !h.mapped);
}

pub fn c08_internal_pointer(s: &mut Src) {
    let h = setup(s, None);
    let off = s.any_in(0, WORDS * 8 - 1);
    let n = s.any_in(1, WORDS * 8);
    s.assume(n <= off + 1); // the search stays inside the window
    let p = DATA_BASE + off;
    let got = find_object_from_internal_pointer::<VmA>(unsafe { Address::from_usize(p) }, n).map(|o| o.to_raw_address().as_usize());
    let in1 = p >= h.o1 && p < h.o1 + h.s1 && p - h.o1 < n;
    let in2 = h.two && p >= h.o2 && p < h.o2 + h.s2 && p - h.o2 < n;
    let want = if !h.mapped { None } else if in2 { Some(h.o2) } else if in1 { Some(h.o1) } else { None };
    chk!(s, "an interior pointer resolves to the object that contains it within the search limit, and to nothing otherwise", got == want);
    cov!(s, "pointer into the second object", h.mapped && in2);
    cov!(s, "pointer between two objects", h.mapped && h.two && p >= h.o1 + h.s1 && p < h.o2);
    cov!(s, "object found only because the limit is large enough", h.mapped && in1 && p - h.o1 + 1 == n);
    cov!(s, "object too far below the pointer for the limit", h.mapped && p >= h.o1 && p < h.o1 + h.s1 && p - h.o1 >= n);
    cov!(s, "unaligned pointer", off % 8 != 0);
}


// ---------------------------------------------------------------------------------------------
// Large object space: the page-wise search of `LargeObjectSpace::find_object_from_internal_pointer`
// (driven through the `los_find_object_from_internal_pointer` hook; the method reads no field of
// the space).  Heap: three pages above three always-empty guard pages; up to two page-aligned
// large objects (VmB: the reference is 8 bytes after the object start).
//
// The page layout (which pages start an object: 7 layouts) and the page the pointer lies in (3) are
// *concrete*: the harness body runs the 21 configurations one after the other, each with fresh
// symbolic object sizes, pointer offset inside its page and search limit.  With a symbolic layout
// the 512-iteration byte loop that locates the VO bit inside a page cannot be cut by constant
// propagation and symbolic execution slows down quadratically (521 iterations in 1500 s).

use mmtk::verif_export::policy::los_find_object_from_internal_pointer;

const GUARD: usize = 3;
const LPAGES: usize = 3;
const TPAGES: usize = GUARD + LPAGES;
const PAGE: usize = 4096;
const REF_OFF: usize = 8;
const HEAP: usize = DATA_BASE + GUARD * PAGE;

/// E2 window for the LOS harnesses: the first VO-bit word of each of the six pages (the search
/// only ever reads that word: `load_raw_word` of the page start and `is_vo_addr` of the first 512
/// bytes).  Under Kani plain loads are redirected here (typed array, concrete index); natively the
/// real loads read `LBUF`, a real buffer with the table's layout (64 bytes per page).
pub static mut LW: [u64; TPAGES] = [0; TPAGES];
#[repr(C, align(64))]
pub struct LBuf(pub [u8; TPAGES * 64]);
pub static mut LBUF: LBuf = LBuf([0; TPAGES * 64]);

fn lwin_base() -> usize {
    #[cfg(kani)]
    {
        0x6100_0000_0000
    }
    #[cfg(not(kani))]
    {
        unsafe { LBUF.0.as_ptr() as usize }
    }
}

#[cfg(kani)]
pub unsafe fn stub_los_load<T: Copy>(a: Address) -> T {
    let off = a.as_usize().wrapping_sub(lwin_base());
    let page = off / 64;
    let within = off % 64;
    let size = core::mem::size_of::<T>();
    kani::assert(page < TPAGES && within + size <= 8, "load outside the first VO-bit word of a page");
    let w: u64 = LW[page] >> (8 * within);
    if size == 8 {
        core::mem::transmute_copy::<u64, T>(&w)
    } else {
        kani::assert(size == 1, "only word and byte loads are made");
        let b: u8 = w as u8;
        core::mem::transmute_copy::<u8, T>(&b)
    }
}
#[cfg(not(kani))]
pub unsafe fn stub_los_load<T: Copy>(a: Address) -> T {
    a.load::<T>()
}

struct LHeap {
    p1: bool,
    st1: usize,
    s1: usize,
    p2: bool,
    st2: usize,
    s2: usize,
}

/// Layouts: page (0..3, relative to the heap) of the first and of the second object.
const LAYOUTS: [(Option<usize>, Option<usize>); 7] = [(None, None), (Some(0), None), (Some(1), None), (Some(2), None), (Some(0), Some(1)), (Some(0), Some(2)), (Some(1), Some(2))];

fn los_setup(s: &mut Src, layout: usize) -> LHeap {
    let (a, b) = LAYOUTS[layout];
    let s1 = s.any_in(16, LPAGES * PAGE);
    let s2 = s.any_in(16, LPAGES * PAGE);
    s.assume(s1 % 8 == 0 && s2 % 8 == 0);
    // large objects own whole pages and do not overlap; the first one is the lower one
    let end1 = match b {
        Some(b) => b * PAGE,
        None => LPAGES * PAGE,
    };
    if let Some(a) = a {
        s.assume(a * PAGE + s1 <= end1);
    }
    if let Some(b) = b {
        s.assume(b * PAGE + s2 <= LPAGES * PAGE);
    }
    unsafe {
        LW = [0; TPAGES];
        #[cfg(not(kani))]
        {
            LBUF.0 = [0; TPAGES * 64];
        }
        let mut k = 0;
        while k < LPAGES {
            if a == Some(k) || b == Some(k) {
                LW[GUARD + k] = 1 << (REF_OFF / 8);
                #[cfg(not(kani))]
                {
                    LBUF.0[(GUARD + k) * 64] = 1 << (REF_OFF / 8);
                }
            }
            k += 1;
        }
    }
    let meta_base = lwin_base();
    set_side_base(meta_base - VO_BIT.offset - (DATA_BASE >> 6));
    let st1 = HEAP + a.unwrap_or(0) * PAGE;
    let st2 = HEAP + b.unwrap_or(0) * PAGE;
    unsafe {
        MAPPED[0] = (DATA_BASE, DATA_BASE + TPAGES * PAGE);
        MAPPED[1] = (meta_base, meta_base + TPAGES * 64);
        crate::vm::OBJ_TABLE[0] = if a.is_some() { (st1 + REF_OFF, s1) } else { (0, 0) };
        crate::vm::OBJ_TABLE[1] = if b.is_some() { (st2 + REF_OFF, s2) } else { (0, 0) };
    }
    LHeap { p1: a.is_some(), st1, s1, p2: b.is_some(), st2, s2 }
}

struct LQuery {
    p: usize,
    n: usize,
    got: Option<usize>,
    ref1: usize,
    ref2: usize,
    in1: bool,
    in2: bool,
}

/// Pointer offsets inside its page (concrete: a symbolic offset makes `ptr.align_down(PAGE)`, and
/// with it every page address and every VO-bit load of the search, symbolic): page start (object
/// start, below the reference), the reference itself, just above it, last byte of the page.
const OFFSETS: [usize; 4] = [0, 8, 9, 4095];

fn los_query(s: &mut Src, h: &LHeap, ptr_page: usize, off: usize) -> LQuery {
    let n = s.any_in(1, LPAGES * PAGE); // at most three pages: the search ends in the guard pages
    let p = HEAP + ptr_page * PAGE + off;
    let got = los_find_object_from_internal_pointer::<VmB>(unsafe { Address::from_usize(p) }, n).map(|o| o.to_raw_address().as_usize());
    LQuery { p, n, got, ref1: h.st1 + REF_OFF, ref2: h.st2 + REF_OFF, in1: h.p1 && p >= h.st1 && p < h.st1 + h.s1, in2: h.p2 && p >= h.st2 && p < h.st2 + h.s2 }
}

/// What every caller relies on: an interior pointer (at or above the reference, inside the
/// allocation, reference less than `n` bytes below) resolves to its object; whatever is returned is
/// the object whose allocation holds the pointer; pointers outside every allocation resolve to
/// nothing.  One harness per (layout, pointer page); the six pointer offsets run in sequence.
fn los_ip(s: &mut Src, layout: usize, ptr_page: usize) {
    install_mmapper();
    let mut oi = 0;
    let mut found = false;
    let mut too_far = false;
    let mut outside = false;
    while oi < OFFSETS.len() {
        let h = los_setup(s, layout);
        let q = los_query(s, &h, ptr_page, OFFSETS[oi]);
        let must1 = q.in1 && q.p >= q.ref1 && q.p - q.ref1 < q.n;
        let must2 = q.in2 && q.p >= q.ref2 && q.p - q.ref2 < q.n;
        chk!(s, "LOS: an interior pointer within the search limit resolves to its object", (!must1 || q.got == Some(q.ref1)) && (!must2 || q.got == Some(q.ref2)));
        chk!(s, "LOS: a returned object is the one whose allocation holds the pointer", match q.got {
            None => true,
            Some(x) => (q.in1 && x == q.ref1) || (q.in2 && x == q.ref2),
        });
        chk!(s, "LOS: a pointer outside every allocation resolves to nothing", q.in1 || q.in2 || q.got.is_none());
        found |= must1 || must2;
        too_far |= (q.in1 || q.in2) && q.got.is_none();
        outside |= !q.in1 && !q.in2;
        oi += 1;
    }
    // reachability witnesses (trivially satisfied where the configuration does not admit them)
    let (a, b) = LAYOUTS[layout];
    let has_obj_at_or_below = matches!(a, Some(x) if x <= ptr_page) || matches!(b, Some(x) if x <= ptr_page);
    let single_below = b.is_none() && matches!(a, Some(x) if x < ptr_page);
    cov!(s, "LOS: an interior pointer is resolved", !has_obj_at_or_below || found);
    cov!(s, "LOS: object reference too far below for the limit, lower pages not searched", !single_below || too_far);
    cov!(s, "LOS: pointer outside every allocation", outside);
}

/// Unmapped heap: nothing is found (one configuration).
pub fn c08_los_unmapped(s: &mut Src) {
    install_mmapper();
    let h = los_setup(s, 1);
    unsafe {
        MAPPED[0] = (0, 0);
    }
    let q = los_query(s, &h, 0, 9);
    chk!(s, "LOS: nothing is found in unmapped memory", q.got.is_none());
    cov!(s, "LOS: pointer into the object, unmapped", q.in1);
}

/// The letter of the property (and of the API documentation), part 1: only pointers at or above
/// the reference are interior pointers.
fn los_strict_header(s: &mut Src, layout: usize, ptr_page: usize) {
    install_mmapper();
    let mut oi = 0;
    let mut found = false;
    while oi < OFFSETS.len() {
        let h = los_setup(s, layout);
        let q = los_query(s, &h, ptr_page, OFFSETS[oi]);
        chk!(s, "LOS: a pointer below the object reference (in the header) resolves to nothing", match q.got {
            None => true,
            Some(x) => x <= q.p,
        });
        found |= q.got.is_some();
        oi += 1;
    }
    cov!(s, "LOS strict: object found", found);
}
/// Part 2: `p - n` is not searched, i.e. an object whose reference is `n` or more bytes below the
/// pointer is not returned.
fn los_strict_limit(s: &mut Src, layout: usize, ptr_page: usize) {
    install_mmapper();
    let mut oi = 0;
    let mut found = false;
    while oi < OFFSETS.len() {
        let h = los_setup(s, layout);
        let q = los_query(s, &h, ptr_page, OFFSETS[oi]);
        chk!(s, "LOS: an object whose reference is n or more bytes below the pointer is not returned", match q.got {
            None => true,
            Some(x) => x > q.p || q.p - x < q.n,
        });
        found |= q.got.is_some();
        oi += 1;
    }
    cov!(s, "LOS strict: object found", found);
}
pub fn c08_los_strict_header_l1p0(s: &mut Src) {
    los_strict_header(s, 1, 0)
}
pub fn c08_los_strict_header_l4p1(s: &mut Src) {
    los_strict_header(s, 4, 1)
}
pub fn c08_los_strict_limit_l1p0(s: &mut Src) {
    los_strict_limit(s, 1, 0)
}
pub fn c08_los_strict_limit_l1p1(s: &mut Src) {
    los_strict_limit(s, 1, 1)
}

pub fn c08_los_ip_l0p0(s: &mut Src) {
    los_ip(s, 0, 0)
}
pub fn c08_los_ip_l0p1(s: &mut Src) {
    los_ip(s, 0, 1)
}
pub fn c08_los_ip_l0p2(s: &mut Src) {
    los_ip(s, 0, 2)
}
pub fn c08_los_ip_l1p0(s: &mut Src) {
    los_ip(s, 1, 0)
}
pub fn c08_los_ip_l1p1(s: &mut Src) {
    los_ip(s, 1, 1)
}
pub fn c08_los_ip_l1p2(s: &mut Src) {
    los_ip(s, 1, 2)
}
pub fn c08_los_ip_l2p0(s: &mut Src) {
    los_ip(s, 2, 0)
}
pub fn c08_los_ip_l2p1(s: &mut Src) {
    los_ip(s, 2, 1)
}
pub fn c08_los_ip_l2p2(s: &mut Src) {
    los_ip(s, 2, 2)
}
pub fn c08_los_ip_l3p0(s: &mut Src) {
    los_ip(s, 3, 0)
}
pub fn c08_los_ip_l3p1(s: &mut Src) {
    los_ip(s, 3, 1)
}
pub fn c08_los_ip_l3p2(s: &mut Src) {
    los_ip(s, 3, 2)
}
pub fn c08_los_ip_l4p0(s: &mut Src) {
    los_ip(s, 4, 0)
}
pub fn c08_los_ip_l4p1(s: &mut Src) {
    los_ip(s, 4, 1)
}
pub fn c08_los_ip_l4p2(s: &mut Src) {
    los_ip(s, 4, 2)
}
pub fn c08_los_ip_l5p0(s: &mut Src) {
    los_ip(s, 5, 0)
}
pub fn c08_los_ip_l5p1(s: &mut Src) {
    los_ip(s, 5, 1)
}
pub fn c08_los_ip_l5p2(s: &mut Src) {
    los_ip(s, 5, 2)
}
pub fn c08_los_ip_l6p0(s: &mut Src) {
    los_ip(s, 6, 0)
}
pub fn c08_los_ip_l6p1(s: &mut Src) {
    los_ip(s, 6, 1)
}
pub fn c08_los_ip_l6p2(s: &mut Src) {
    los_ip(s, 6, 2)
}

harnesses! {
    #[kani::unwind(26)] #[kani::stub(alloc::fmt::format, crate::env::stub_format)] c08_is_object; // features=vo_bit timeout=900
    #[kani::unwind(26)] #[kani::stub(alloc::fmt::format, crate::env::stub_format)] #[kani::stub(mmtk::util::Address::load, crate::env::stub_addr_load)] #[kani::stub(mmtk::util::Address::is_mapped, crate::env::stub_is_mapped)] c08_internal_pointer; // features=vo_bit timeout=900 loops=in_metadata_bytes:5
    #[kani::unwind(10)] #[kani::stub(alloc::fmt::format, crate::env::stub_format)] #[kani::stub(mmtk::util::Address::load, crate::c08_vobit::stub_los_load)] #[kani::stub(mmtk::util::Address::is_mapped, crate::env::stub_is_mapped)] c08_los_unmapped; // features=vo_bit timeout=900
    #[kani::unwind(10)] #[kani::stub(alloc::fmt::format, crate::env::stub_format)] #[kani::stub(mmtk::util::Address::load, crate::c08_vobit::stub_los_load)] #[kani::stub(mmtk::util::Address::is_mapped, crate::env::stub_is_mapped)] c08_los_ip_l0p0; // features=vo_bit timeout=600
    #[kani::unwind(10)] #[kani::stub(alloc::fmt::format, crate::env::stub_format)] #[kani::stub(mmtk::util::Address::load, crate::c08_vobit::stub_los_load)] #[kani::stub(mmtk::util::Address::is_mapped, crate::env::stub_is_mapped)] c08_los_ip_l0p1; // features=vo_bit timeout=600
    #[kani::unwind(10)] #[kani::stub(alloc::fmt::format, crate::env::stub_format)] #[kani::stub(mmtk::util::Address::load, crate::c08_vobit::stub_los_load)] #[kani::stub(mmtk::util::Address::is_mapped, crate::env::stub_is_mapped)] c08_los_ip_l0p2; // features=vo_bit timeout=600
    #[kani::unwind(10)] #[kani::stub(alloc::fmt::format, crate::env::stub_format)] #[kani::stub(mmtk::util::Address::load, crate::c08_vobit::stub_los_load)] #[kani::stub(mmtk::util::Address::is_mapped, crate::env::stub_is_mapped)] c08_los_ip_l1p0; // features=vo_bit timeout=600
    #[kani::unwind(10)] #[kani::stub(alloc::fmt::format, crate::env::stub_format)] #[kani::stub(mmtk::util::Address::load, crate::c08_vobit::stub_los_load)] #[kani::stub(mmtk::util::Address::is_mapped, crate::env::stub_is_mapped)] c08_los_ip_l1p1; // features=vo_bit timeout=600
    #[kani::unwind(10)] #[kani::stub(alloc::fmt::format, crate::env::stub_format)] #[kani::stub(mmtk::util::Address::load, crate::c08_vobit::stub_los_load)] #[kani::stub(mmtk::util::Address::is_mapped, crate::env::stub_is_mapped)] c08_los_ip_l1p2; // features=vo_bit timeout=600
    #[kani::unwind(10)] #[kani::stub(alloc::fmt::format, crate::env::stub_format)] #[kani::stub(mmtk::util::Address::load, crate::c08_vobit::stub_los_load)] #[kani::stub(mmtk::util::Address::is_mapped, crate::env::stub_is_mapped)] c08_los_ip_l2p0; // features=vo_bit timeout=600
    #[kani::unwind(10)] #[kani::stub(alloc::fmt::format, crate::env::stub_format)] #[kani::stub(mmtk::util::Address::load, crate::c08_vobit::stub_los_load)] #[kani::stub(mmtk::util::Address::is_mapped, crate::env::stub_is_mapped)] c08_los_ip_l2p1; // features=vo_bit timeout=600
    #[kani::unwind(10)] #[kani::stub(alloc::fmt::format, crate::env::stub_format)] #[kani::stub(mmtk::util::Address::load, crate::c08_vobit::stub_los_load)] #[kani::stub(mmtk::util::Address::is_mapped, crate::env::stub_is_mapped)] c08_los_ip_l2p2; // features=vo_bit timeout=600
    #[kani::unwind(10)] #[kani::stub(alloc::fmt::format, crate::env::stub_format)] #[kani::stub(mmtk::util::Address::load, crate::c08_vobit::stub_los_load)] #[kani::stub(mmtk::util::Address::is_mapped, crate::env::stub_is_mapped)] c08_los_ip_l3p0; // features=vo_bit timeout=600
    #[kani::unwind(10)] #[kani::stub(alloc::fmt::format, crate::env::stub_format)] #[kani::stub(mmtk::util::Address::load, crate::c08_vobit::stub_los_load)] #[kani::stub(mmtk::util::Address::is_mapped, crate::env::stub_is_mapped)] c08_los_ip_l3p1; // features=vo_bit timeout=600
    #[kani::unwind(10)] #[kani::stub(alloc::fmt::format, crate::env::stub_format)] #[kani::stub(mmtk::util::Address::load, crate::c08_vobit::stub_los_load)] #[kani::stub(mmtk::util::Address::is_mapped, crate::env::stub_is_mapped)] c08_los_ip_l3p2; // features=vo_bit timeout=600
    #[kani::unwind(10)] #[kani::stub(alloc::fmt::format, crate::env::stub_format)] #[kani::stub(mmtk::util::Address::load, crate::c08_vobit::stub_los_load)] #[kani::stub(mmtk::util::Address::is_mapped, crate::env::stub_is_mapped)] c08_los_ip_l4p0; // features=vo_bit timeout=600
    #[kani::unwind(10)] #[kani::stub(alloc::fmt::format, crate::env::stub_format)] #[kani::stub(mmtk::util::Address::load, crate::c08_vobit::stub_los_load)] #[kani::stub(mmtk::util::Address::is_mapped, crate::env::stub_is_mapped)] c08_los_ip_l4p1; // features=vo_bit timeout=600
    #[kani::unwind(10)] #[kani::stub(alloc::fmt::format, crate::env::stub_format)] #[kani::stub(mmtk::util::Address::load, crate::c08_vobit::stub_los_load)] #[kani::stub(mmtk::util::Address::is_mapped, crate::env::stub_is_mapped)] c08_los_ip_l4p2; // features=vo_bit timeout=600
    #[kani::unwind(10)] #[kani::stub(alloc::fmt::format, crate::env::stub_format)] #[kani::stub(mmtk::util::Address::load, crate::c08_vobit::stub_los_load)] #[kani::stub(mmtk::util::Address::is_mapped, crate::env::stub_is_mapped)] c08_los_ip_l5p0; // features=vo_bit timeout=600
    #[kani::unwind(10)] #[kani::stub(alloc::fmt::format, crate::env::stub_format)] #[kani::stub(mmtk::util::Address::load, crate::c08_vobit::stub_los_load)] #[kani::stub(mmtk::util::Address::is_mapped, crate::env::stub_is_mapped)] c08_los_ip_l5p1; // features=vo_bit timeout=600
    #[kani::unwind(10)] #[kani::stub(alloc::fmt::format, crate::env::stub_format)] #[kani::stub(mmtk::util::Address::load, crate::c08_vobit::stub_los_load)] #[kani::stub(mmtk::util::Address::is_mapped, crate::env::stub_is_mapped)] c08_los_ip_l5p2; // features=vo_bit timeout=600
    #[kani::unwind(10)] #[kani::stub(alloc::fmt::format, crate::env::stub_format)] #[kani::stub(mmtk::util::Address::load, crate::c08_vobit::stub_los_load)] #[kani::stub(mmtk::util::Address::is_mapped, crate::env::stub_is_mapped)] c08_los_ip_l6p0; // features=vo_bit timeout=600
    #[kani::unwind(10)] #[kani::stub(alloc::fmt::format, crate::env::stub_format)] #[kani::stub(mmtk::util::Address::load, crate::c08_vobit::stub_los_load)] #[kani::stub(mmtk::util::Address::is_mapped, crate::env::stub_is_mapped)] c08_los_ip_l6p1; // features=vo_bit timeout=600
    #[kani::unwind(10)] #[kani::stub(alloc::fmt::format, crate::env::stub_format)] #[kani::stub(mmtk::util::Address::load, crate::c08_vobit::stub_los_load)] #[kani::stub(mmtk::util::Address::is_mapped, crate::env::stub_is_mapped)] c08_los_ip_l6p2; // features=vo_bit timeout=600
    #[kani::unwind(10)] #[kani::stub(alloc::fmt::format, crate::env::stub_format)] #[kani::stub(mmtk::util::Address::load, crate::c08_vobit::stub_los_load)] #[kani::stub(mmtk::util::Address::is_mapped, crate::env::stub_is_mapped)] c08_los_strict_header_l1p0; // features=vo_bit timeout=600
    #[kani::unwind(10)] #[kani::stub(alloc::fmt::format, crate::env::stub_format)] #[kani::stub(mmtk::util::Address::load, crate::c08_vobit::stub_los_load)] #[kani::stub(mmtk::util::Address::is_mapped, crate::env::stub_is_mapped)] c08_los_strict_header_l4p1; // features=vo_bit timeout=600
    #[kani::unwind(10)] #[kani::stub(alloc::fmt::format, crate::env::stub_format)] #[kani::stub(mmtk::util::Address::load, crate::c08_vobit::stub_los_load)] #[kani::stub(mmtk::util::Address::is_mapped, crate::env::stub_is_mapped)] c08_los_strict_limit_l1p0; // features=vo_bit timeout=600
    #[kani::unwind(10)] #[kani::stub(alloc::fmt::format, crate::env::stub_format)] #[kani::stub(mmtk::util::Address::load, crate::c08_vobit::stub_los_load)] #[kani::stub(mmtk::util::Address::is_mapped, crate::env::stub_is_mapped)] c08_los_strict_limit_l1p1; // features=vo_bit timeout=600
}
