//! C08 — interior-pointer and conservative lookups resolve to the right object (VO-bit kernel).
//!
//! Real code (feature `vo_bit`): `vo_bit::{is_vo_bit_set_for_addr, find_object_from_internal_pointer,
//! is_internal_ptr_from_vo_bit, get_object_ref_for_vo_addr, is_vo_addr}` ->
//! `SideMetadataSpec::{is_mapped, load_atomic, find_prev_non_zero_value}` on a 3-byte VO bitmap
//! (24 words = 192 bytes of heap) holding up to two non-overlapping objects with symbolic start
//! and size.  Environment as in C22 (E1 base, E2 window loads, E3 mapped predicate).
//! Oracle: `is_vo_bit_set_for_addr(a) == Some(o)` iff `a` is an object reference;
//! `find_object_from_internal_pointer(p, n) == Some(o)` iff `o <= p < o + size(o)` and `p - o < n`.

use crate::env::*;
use crate::vm::*;
use crate::*;
use mmtk::util::metadata::side_metadata::verif::spec_defs::VO_BIT;
use mmtk::util::metadata::vo_bit::verif::*;
use mmtk::util::Address;

pub const DATA_BASE: usize = 1 << 40;
const WBYTES: usize = 3;
const WORDS: usize = WBYTES * 8;

struct Heap {
    o1: usize,
    s1: usize,
    o2: usize,
    s2: usize,
    two: bool,
    mapped: bool,
}

fn setup(s: &mut Src, win: Option<&mut Win<WBYTES>>) -> Heap {
    install_mmapper();
    let spec = VO_BIT;
    // two objects (word index, size in words), the second optional, non-overlapping, in order
    let w1 = s.any_in(0, WORDS - 2);
    let n1 = s.any_in(2, WORDS);
    let two = s.any_bool();
    let w2 = s.any_in(0, WORDS - 2);
    let n2 = s.any_in(2, WORDS);
    s.assume(w1 + n1 <= WORDS);
    s.assume(!two || (w2 >= w1 + n1 && w2 + n2 <= WORDS));
    let mut bytes = [0u8; WBYTES];
    let mut k = 0;
    while k < WBYTES {
        let mut b = 0u8;
        let mut j = 0;
        while j < 8 {
            let w = k * 8 + j;
            if w == w1 || (two && w == w2) {
                b |= 1 << j;
            }
            j += 1;
        }
        unsafe { SWIN.0[k] = b };
        bytes[k] = b;
        k += 1;
    }
    let meta_base = match win {
        Some(w) => {
            // real memory (atomic loads are not redirected by the E2 stub)
            w.0 = bytes;
            w.install(&spec, DATA_BASE);
            w.addr()
        }
        None => {
            swin_install(&spec, DATA_BASE);
            swin_base()
        }
    };
    let mapped = s.any_bool();
    unsafe {
        if mapped {
            MAPPED[0] = (DATA_BASE, DATA_BASE + WORDS * 8);
            MAPPED[1] = (meta_base, meta_base + WBYTES);
        }
        crate::vm::OBJ_TABLE[0] = (DATA_BASE + w1 * 8, n1 * 8);
        crate::vm::OBJ_TABLE[1] = if two { (DATA_BASE + w2 * 8, n2 * 8) } else { (0, 0) };
    }
    Heap { o1: DATA_BASE + w1 * 8, s1: n1 * 8, o2: DATA_BASE + w2 * 8, s2: n2 * 8, two, mapped }
}

pub fn c08_is_object(s: &mut Src) {
    let mut win = Win::<WBYTES>([0; WBYTES]);
    let h = setup(s, Some(&mut win));
    let w = s.any_in(0, WORDS - 1);
    let a = DATA_BASE + w * 8;
    let got = is_vo_bit_set_for_addr(unsafe { Address::from_usize(a) }).map(|o| o.to_raw_address().as_usize());
    let is_ref = h.mapped && (a == h.o1 || (h.two && a == h.o2));
    chk!(s, "a word-aligned address is reported as an object iff it is an object reference", got == if is_ref { Some(a) } else { None });
    cov!(s, "address inside an object but not its reference", h.mapped && a > h.o1 && a < h.o1 + h.s1);
    cov!(s, "address is the second object's reference", h.mapped && h.two && a == h.o2);
    cov!(s, "unmapped", !h.mapped);
}

pub fn c08_internal_pointer(s: &mut Src) {
    let h = setup(s, None);
    let off = s.any_in(0, WORDS * 8 - 1);
    let n = s.any_in(1, WORDS * 8);
    s.assume(n <= off + 1); // the search stays inside the window
    let p = DATA_BASE + off;
    let got = find_object_from_internal_pointer::<VmA>(unsafe { Address::from_usize(p) }, n).map(|o| o.to_raw_address().as_usize());
    let in1 = p >= h.o1 && p < h.o1 + h.s1 && p - h.o1 < n;
    let in2 = h.two && p >= h.o2 && p < h.o2 + h.s2 && p - h.o2 < n;
    let want = if !h.mapped { None } else if in2 { Some(h.o2) } else if in1 { Some(h.o1) } else { None };
    chk!(s, "an interior pointer resolves to the object that contains it within the search limit, and to nothing otherwise", got == want);
    cov!(s, "pointer into the second object", h.mapped && in2);
    cov!(s, "pointer between two objects", h.mapped && h.two && p >= h.o1 + h.s1 && p < h.o2);
    cov!(s, "object found only because the limit is large enough", h.mapped && in1 && p - h.o1 + 1 == n);
    cov!(s, "object too far below the pointer for the limit", h.mapped && p >= h.o1 && p < h.o1 + h.s1 && p - h.o1 >= n);
    cov!(s, "unaligned pointer", off % 8 != 0);
}

harnesses! {
    #[kani::unwind(26)] #[kani::stub(alloc::fmt::format, crate::env::stub_format)] c08_is_object; // features=vo_bit timeout=900
    #[kani::unwind(26)] #[kani::stub(alloc::fmt::format, crate::env::stub_format)] #[kani::stub(mmtk::util::Address::load, crate::env::stub_addr_load)] #[kani::stub(mmtk::util::Address::is_mapped, crate::env::stub_is_mapped)] c08_internal_pointer; // features=vo_bit timeout=900 loops=in_metadata_bytes:5
}
