//! Native replayer: runs a harness body against the natively compiled mmtk-core with the values
//! of a solver counterexample.  Usage: replay <harness> <values.json>
//! values.json: {"values": [[b0, b1, ..], ...]} in kani::any() order.
//! Exit: 0 pass, 3 check failed, 4 panic in code under test, 5 assumption not met, 6 bad input.

#[cfg(kani)]
fn main() {}

#[cfg(not(kani))]
use mmtk_verif_harness::*;

#[cfg(not(kani))]
fn parse_values(text: &str) -> Vec<Vec<u8>> {
    // Minimal parser for the "values" array of arrays of small integers.
    let start = text.find("\"values\"").expect("no values key");
    let rest = &text[start..];
    let open = rest.find('[').unwrap();
    let mut depth = 0i32;
    let mut out: Vec<Vec<u8>> = vec![];
    let mut cur: Vec<u8> = vec![];
    let mut num = String::new();
    for c in rest[open..].chars() {
        match c {
            '[' => {
                depth += 1;
                if depth == 2 {
                    cur = vec![];
                }
            }
            ']' => {
                if !num.is_empty() {
                    cur.push(num.parse::<u16>().unwrap() as u8);
                    num.clear();
                }
                if depth == 2 {
                    out.push(std::mem::take(&mut cur));
                }
                depth -= 1;
                if depth == 0 {
                    break;
                }
            }
            ',' => {
                if !num.is_empty() {
                    cur.push(num.parse::<u16>().unwrap() as u8);
                    num.clear();
                }
            }
            d if d.is_ascii_digit() => num.push(d),
            _ => {}
        }
    }
    out
}

#[cfg(not(kani))]
fn main() {
    let args: Vec<String> = std::env::args().collect();
    if args.len() == 2 && args[1] == "--list" {
        for (n, _) in replay_table() {
            println!("{}", n);
        }
        return;
    }
    if args.len() != 3 {
        eprintln!("usage: replay <harness> <values.json> | --list");
        std::process::exit(6);
    }
    let text = std::fs::read_to_string(&args[2]).expect("cannot read values file");
    let vals = parse_values(&text);
    let table = replay_table();
    let Some((_, f)) = table.iter().find(|(n, _)| *n == args[1]) else {
        println!("REPLAY-RESULT: unknown-harness {}", args[1]);
        std::process::exit(6);
    };
    std::panic::set_hook(Box::new(|info| {
        let msg = info.to_string().replace('\n', " ");
        println!("REPLAY-RESULT: panic {}", msg);
        std::process::exit(4);
    }));
    let mut s = Src::from_values(vals);
    f(&mut s);
    println!("REPLAY-COVERS: {:?}", s.covers);
    println!("REPLAY-RESULT: pass");
}
