//! C34 — Immix never hands out a line that holds a live object (hole-search kernel).
//!
//! Real code: `ImmixSpace::get_next_available_lines` (through the `verif_hole_search` hook, which
//! only stores the two state bytes into a zeroed space object), `Block::line_mark_table`,
//! `MetadataByteArrayRef::{new, get}`, `Line::{get_index_within_block, next_nth, block,
//! mark_lines_for_object, mark, is_marked}`, `BlockState <-> u8`.
//! The two line states are *independently arbitrary* (1..=127): this covers every pair that any
//! number of collections can produce, including after the 127 -> 1 wrap.
//! Built with feature `immix_smaller_block` (32 lines per block, same code, smaller constant).

use crate::env::*;
use crate::vm::*;
use crate::*;
use mmtk::util::{Address, ObjectReference};
use mmtk::verif_export::policy::immix::*;

const DATA_BASE: usize = 1 << 40; // block aligned
const LINES: usize = Block::LINES;
const LINE_BYTES: usize = 256;

pub fn c34_hole_search(s: &mut Src) {
    let mut win = Win::<LINES>(s.any_bytes::<LINES>());
    win.install(&Line::MARK_TABLE, DATA_BASE);
    let cur = s.any_u8();
    let unavail = s.any_u8();
    s.assume(cur >= 1 && cur <= 127 && unavail >= 1 && unavail <= 127);
    let start = s.any_in(0, LINES - 1);
    let marks = win.0;
    let live = |i: usize| marks[i] == cur || marks[i] == unavail;
    let r = ImmixSpace::<VmA>::verif_hole_search(cur, unavail, unsafe { Address::from_usize(DATA_BASE + start * LINE_BYTES) });
    // reference: first maximal run of non-live lines at or after `start`
    let mut first = LINES;
    let mut i = LINES;
    while i > start {
        i -= 1;
        if !live(i) {
            first = i;
        }
    }
    match r {
        None => {
            chk!(s, "no hole reported only when every remaining line is live", first == LINES);
        }
        Some((a, b)) => {
            let (a, b) = (a.as_usize(), b.as_usize());
            chk!(s, "hole bounds are line aligned and ordered inside the block", a >= DATA_BASE && (a - DATA_BASE) % LINE_BYTES == 0 && (b - DATA_BASE) % LINE_BYTES == 0 && a < b && b <= DATA_BASE + LINES * LINE_BYTES);
            let (la, lb) = ((a - DATA_BASE) / LINE_BYTES, (b - DATA_BASE) / LINE_BYTES);
            chk!(s, "the hole starts at the first non-live line at or after the search start", la == first);
            let mut ok = true;
            let mut j = 0;
            while j < LINES {
                if j >= la && j < lb {
                    ok &= !live(j);
                }
                j += 1;
            }
            chk!(s, "no line of the hole is marked live in the current or the last full collection", ok);
            chk!(s, "the hole is maximal: it ends at a live line or at the block end", lb == LINES || live(lb));
            cov!(s, "hole ends before the block end", lb < LINES);
            cov!(s, "hole does not start at the search start", la > start);
            cov!(s, "a line carries a stale state of an older collection", marks[la] != 0);
        }
    }
    cov!(s, "no hole", r.is_none());
    cov!(s, "current and unavailable states differ", cur != unavail);
}

pub fn c34_mark_lines(s: &mut Src) {
    let mut win = Win::<LINES>(s.any_bytes::<LINES>());
    win.install(&Line::MARK_TABLE, DATA_BASE);
    let pre = win.0;
    let state = s.any_u8();
    let off = s.any_in(0, LINES * LINE_BYTES - 16);
    let size = s.any_in(16, LINES * LINE_BYTES);
    s.assume(off % 8 == 0 && size % 8 == 0 && off + size <= LINES * LINE_BYTES);
    let obj = DATA_BASE + off;
    unsafe {
        OBJ_TABLE[0] = (obj, size);
    }
    let o = unsafe { ObjectReference::from_raw_address_unchecked(Address::from_usize(obj)) };
    let newly = Line::mark_lines_for_object::<VmA>(o, state);
    let post = win.0;
    let (l0, l1) = (off / LINE_BYTES, (off + size - 1) / LINE_BYTES);
    let mut ok_in = true;
    let mut ok_out = true;
    let mut count = 0;
    let mut j = 0;
    while j < LINES {
        if j >= l0 && j <= l1 {
            ok_in &= post[j] == state;
            if pre[j] != state {
                count += 1;
            }
        } else {
            ok_out &= post[j] == pre[j];
        }
        j += 1;
    }
    chk!(s, "every line spanned by the object is marked with the state", ok_in);
    chk!(s, "no other line changes", ok_out);
    chk!(s, "the number of newly marked lines is reported", newly == count);
    cov!(s, "object spans three or more lines", l1 >= l0 + 2);
    cov!(s, "object ends exactly at a line boundary", (off + size) % LINE_BYTES == 0);
    cov!(s, "object inside one line", l0 == l1);
}

pub fn c34_block_state(s: &mut Src) {
    let b = s.any_u8();
    let st: BlockState = b.into();
    let back: u8 = st.into();
    chk!(s, "byte -> BlockState -> byte is the identity", back == b);
    chk!(s, "the three named states have their own bytes", (b == 0) == (st == BlockState::Unallocated) && (b == 255) == (st == BlockState::Unmarked) && (b == 254) == (st == BlockState::Marked));
    chk!(s, "every other byte is a reusable block with that many unavailable lines", (b >= 1 && b <= 253) == st.is_reusable());
    let n = s.any_u8();
    s.assume(n >= 1 && n <= 253);
    let r = BlockState::Reusable { unavailable_lines: n };
    let rb: u8 = r.into();
    let rr: BlockState = rb.into();
    chk!(s, "Reusable(n) round-trips through its byte for n in 1..=253", rr == r);
    cov!(s, "reusable state", st.is_reusable());
}

harnesses! {
    #[kani::unwind(34)] c34_hole_search; // features=immix_smaller_block timeout=1200
    #[kani::unwind(34)] c34_mark_lines; // features=immix_smaller_block timeout=1200
    #[kani::unwind(2)] c34_block_state; // features=immix_smaller_block timeout=600
}
