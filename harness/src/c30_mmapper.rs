//! C30 — mmap chunk states only move Unmapped -> Quarantined -> Mapped.
//!
//! NOT CLAIMED (all harnesses `tier=wip`): even the minimal probe (fresh mmapper, one `ensure_mapped` over
//! <= 2 chunks of a 16-chunk address space) does not finish symbolic execution in 800 s: CBMC spends
//! about a second per `Flatten::next` over the slab slices (`same_allocation` pointer checks on slices
//! of boxed arrays reached through a `Vec`).  Kept so that the formulation is on record.
//!
//! Real code: `ChunkStateMmapper::{quarantine_address_range, ensure_mapped, mark_as_mapped,
//! is_mapped_address}`, `ChunkRange::{new_unaligned, new_aligned, limit, ...}`,
//! `TwoLevelStateStorage::{get_state, bulk_set_state, bulk_transition_state,
//! foreach_slab_slice_for_write, get_or_allocate_slab_table, slab_table, slab_index,
//! in_slab_index, new_slab}`, `OnceOptionBox::{get, get_or_init}`, `revisitable_group_by` (C40).
//! Bound: the verification build shrinks the address space of the two-level storage to 16 chunks
//! (`LOG_MAPPABLE_BYTES = LOG_BYTES_IN_CHUNK + 4`: 4 slabs of 4 chunks, hook H14); every other
//! constant and all code are the production ones.
//! Environment E5: `OS::dzmmap` is stubbed under Kani (records the call, returns Ok).  Natively
//! the real `dzmmap` maps the (low, otherwise unused) addresses; chunk 0 is excluded because the
//! page at address 0 cannot be mapped natively.
//!
//! Pre-state: the two middle slabs (chunks 4..12) hold arbitrary states (seeded through the
//! `verif_seed_state` hook = `bulk_set_state` on one chunk), the outer slabs are not allocated
//! (all their chunks logically Unmapped).  One (or two) operations with an arbitrary kind and an
//! arbitrary byte/page range follow; the oracle is a 16-entry ghost array.

use crate::*;
use mmtk::util::os::*;
use mmtk::util::Address;
use mmtk::verif_export::heap::{ChunkStateMmapper, Mmapper};

const LOG_CH: usize = 22;
const CH: usize = 1 << LOG_CH;
const NCH: usize = 16;
const LIMIT: usize = NCH * CH;

const MAXCALLS: usize = 8;
/// Recorded `dzmmap` calls: (start, size, replace, no-access protection, reserve).
static mut CALLS: [(usize, usize, bool, bool, bool); MAXCALLS] = [(0, 0, false, false, false); MAXCALLS];
static mut NCALLS: usize = 0;

pub fn stub_dzmmap(start: Address, size: usize, strategy: MmapStrategy, _annotation: &MmapAnnotation<'_>) -> MmapResult<Address> {
    unsafe {
        if NCALLS < MAXCALLS {
            CALLS[NCALLS] = (start.as_usize(), size, strategy.replace, matches!(strategy.prot, MmapProtection::NoAccess), strategy.reserve);
        }
        NCALLS += 1;
    }
    Ok(start)
}

fn addr(a: usize) -> Address {
    unsafe { Address::from_usize(a) }
}

const UNMAPPED: u8 = 0;
const QUARANTINED: u8 = 1;
const MAPPED: u8 = 2;

fn seed(s: &mut Src, m: &ChunkStateMmapper, ghost: &mut [u8; NCH]) {
    let mut c = 4;
    while c < 12 {
        let st = s.any_in(0, 2) as u8;
        m.verif_seed_state(addr(c * CH), st);
        ghost[c] = st;
        c += 1;
    }
}

/// One operation with arbitrary kind and range, checked against the ghost array (which it updates).
/// `max_chunks` bounds the number of chunks the (rounded) range may cover.
fn one_op(s: &mut Src, m: &ChunkStateMmapper, ghost: &mut [u8; NCH], max_chunks: usize, first_chunk: Option<usize>) {
    let kind = s.any_in(0, 2);
    let pages = s.any_usize();
    // The chunk the range starts in is concrete per harness (a symbolic start chunk makes every
    // slab pointer symbolic and the symbolic execution does not finish); the offset inside that
    // chunk, the length, the kind and the chunk states are symbolic.
    let start = match first_chunk {
        Some(c) => c * CH + s.any_in(0, CH - 1),
        None => s.any_usize(),
    };
    s.assume(start >= CH && start < LIMIT && pages <= LIMIT >> 12);
    let bytes = pages << 12;
    s.assume(start + bytes <= LIMIT);
    // the chunks the documented rounding covers: [align_down(start), align_up(start + bytes))
    let lo = start >> LOG_CH;
    let hi = (start + bytes + CH - 1) >> LOG_CH;
    s.assume(hi - lo <= max_chunks);
    if kind == 0 {
        // documented contract: quarantining an already quarantined chunk is a caller error (panics)
        let mut c = 1;
        while c < NCH {
            s.assume(!(c >= lo && c < hi && ghost[c] == QUARANTINED));
            c += 1;
        }
    }
    unsafe {
        NCALLS = 0;
    }
    let anno = MmapAnnotation::Misc { name: "verif-c30" };
    let ok = match kind {
        0 => m.quarantine_address_range(addr(start), pages, HugePageSupport::No, &anno).is_ok(),
        1 => m.ensure_mapped(addr(start), pages, HugePageSupport::No, MmapProtection::ReadWrite, &anno).is_ok(),
        _ => {
            m.mark_as_mapped(addr(start), bytes);
            true
        }
    };
    chk!(s, "the operation succeeds when every mmap call succeeds", ok);
    let ncalls = unsafe { NCALLS };
    chk!(s, "no more mmap calls than chunks in the range", ncalls <= hi - lo && ncalls <= MAXCALLS);
    let mut c = 1;
    let mut any_q_to_m = false;
    while c < NCH {
        let old = ghost[c];
        let new = m.verif_state(addr(c * CH));
        let inside = c >= lo && c < hi;
        let expected = if !inside {
            old
        } else if kind == 0 {
            if old == UNMAPPED {
                QUARANTINED
            } else {
                old
            }
        } else {
            MAPPED
        };
        chk!(s, "a chunk state never returns to an earlier state", new >= old);
        chk!(s, "every chunk of the range reaches the requested state", !inside || new == expected);
        chk!(s, "chunks outside the (chunk-rounded) range keep their state", inside || new == old);
        // the system calls made: exactly the chunks that change state, with the right strategy
        let needs = inside && ((kind == 0 && old == UNMAPPED) || (kind == 1 && old != MAPPED));
        let mut covering = 0;
        let mut k = 0;
        while k < MAXCALLS {
            if k < ncalls {
                let (cs, csz, replace, noaccess, reserve) = unsafe { CALLS[k] };
                if cs <= c * CH && (c + 1) * CH <= cs + csz {
                    covering += 1;
                    if kind == 0 {
                        chk!(s, "quarantine maps with no access and without reserving", noaccess && !reserve);
                    } else {
                        chk!(s, "ensure_mapped replaces exactly the quarantined reservations", replace == (old == QUARANTINED) && !noaccess && reserve);
                    }
                }
                chk!(s, "mmap calls are chunk-aligned and inside the range", cs & (CH - 1) == 0 && csz & (CH - 1) == 0 && csz > 0 && cs >= lo * CH && cs + csz <= hi * CH);
            }
            k += 1;
        }
        chk!(s, "a chunk is mmapped exactly once iff it changes state through a system call (mapped memory is never re-mapped)", covering == if needs { 1 } else { 0 });
        any_q_to_m |= inside && kind == 1 && old == QUARANTINED;
        ghost[c] = new;
        c += 1;
    }
    cov!(s, "a quarantined chunk becomes mapped", any_q_to_m);
    cov!(s, "the range crosses a slab boundary", (lo >> 2) != ((hi - 1) >> 2) && hi > lo);
    cov!(s, "several mmap calls (state groups) in one operation", ncalls >= 2);
    cov!(s, "unaligned start and end", start & (CH - 1) != 0 && (start + bytes) & (CH - 1) != 0 && pages > 0);
    cov!(s, "the range enters a slab that was not allocated", lo < 4 || hi > 12);
}

fn query(s: &mut Src, m: &ChunkStateMmapper, ghost: &[u8; NCH]) {
    let a = s.any_usize();
    s.assume(a >= CH); // chunk 0 is outside the explored ranges (never mapped here)
    let mapped = m.is_mapped_address(addr(a));
    let c = a >> LOG_CH;
    let expected = a < LIMIT && c >= 1 && {
        // symbolic index into the ghost array, written as a chain to keep the encoding small
        let mut st = UNMAPPED;
        let mut i = 1;
        while i < NCH {
            if i == c {
                st = ghost[i];
            }
            i += 1;
        }
        st == MAPPED
    };
    chk!(s, "is_mapped_address is true exactly for addresses in Mapped chunks", mapped == expected);
    cov!(s, "query above the mappable address space", a >= LIMIT);
    cov!(s, "query of a mapped chunk at an unaligned address", mapped && a & (CH - 1) != 0);
}

fn run(s: &mut Src, ops: usize, max_chunks: usize, first_chunk: Option<usize>) {
    let m = ChunkStateMmapper::new();
    let mut ghost = [UNMAPPED; NCH];
    seed(s, &m, &mut ghost);
    let mut i = 0;
    while i < ops {
        one_op(s, &m, &mut ghost, max_chunks, first_chunk);
        i += 1;
    }
    query(s, &m, &ghost);
    chk!(s, "the mmapper reports chunk granularity and the storage's address-space size", m.log_granularity() as usize == LOG_CH && 1usize << m.log_mappable_bytes() == LIMIT);
    core::mem::forget(m);
}

/// One operation over at most 5 chunks from an arbitrary state of the two middle slabs, starting
/// in chunk 6 (third chunk of an allocated slab; the range may run into the next slab).
pub fn c30_op_from6(s: &mut Src) {
    run(s, 1, 5, Some(6))
}
/// ... starting in chunk 2 (unallocated first slab, may run into the allocated second one).
pub fn c30_op_from2(s: &mut Src) {
    run(s, 1, 5, Some(2))
}
/// ... starting in chunk 3 (last chunk of an unallocated slab).
pub fn c30_op_from3(s: &mut Src) {
    run(s, 1, 5, Some(3))
}
/// ... starting in chunk 4 (first chunk of a slab).
pub fn c30_op_from4(s: &mut Src) {
    run(s, 1, 5, Some(4))
}
/// ... starting in chunk 5 (second chunk of a slab).
pub fn c30_op_from5(s: &mut Src) {
    run(s, 1, 5, Some(5))
}
/// ... starting in chunk 7 (last chunk of an allocated slab).
pub fn c30_op_from7(s: &mut Src) {
    run(s, 1, 5, Some(7))
}
/// ... starting in chunk 11 (last allocated chunk; the range may run into the unallocated last slab).
pub fn c30_op_from11(s: &mut Src) {
    run(s, 1, 5, Some(11))
}
/// One operation over up to 10 chunks starting in chunk 2 (spans three slabs).
pub fn c30_op_wide_from2(s: &mut Src) {
    run(s, 1, 10, Some(2))
}
/// Two consecutive operations over at most 4 chunks each, both starting in chunk 6.
pub fn c30_two_ops_from6(s: &mut Src) {
    run(s, 2, 4, Some(6))
}
/// Probe: fresh mmapper, one ensure_mapped over <= 2 chunks starting in chunk 6.
pub fn c30_probe(s: &mut Src) {
    let m = ChunkStateMmapper::new();
    let pages = s.any_in(0, 2048);
    let start = 6 * CH + s.any_in(0, CH - 1);
    s.assume(start + (pages << 12) <= 8 * CH);
    let anno = MmapAnnotation::Misc { name: "verif-c30" };
    unsafe {
        NCALLS = 0;
    }
    let ok = m.ensure_mapped(addr(start), pages, HugePageSupport::No, MmapProtection::ReadWrite, &anno).is_ok();
    chk!(s, "probe ok", ok);
    chk!(s, "probe state", m.verif_state(addr(6 * CH)) == MAPPED || (pages == 0 && start == 6 * CH));
    core::mem::forget(m);
}
/// Fully symbolic start chunk (does not finish symbolic execution in 1500 s: work in progress).
pub fn c30_one_op(s: &mut Src) {
    run(s, 1, 5, None)
}

harnesses! {
    #[kani::unwind(9)] #[kani::stub(alloc::fmt::format, crate::env::stub_format)] #[kani::stub(<mmtk::util::os::OS as mmtk::util::os::OSMemory>::dzmmap, crate::c30_mmapper::stub_dzmmap)] c30_probe; // tier=wip
    #[kani::unwind(9)] #[kani::stub(alloc::fmt::format, crate::env::stub_format)] #[kani::stub(<mmtk::util::os::OS as mmtk::util::os::OSMemory>::dzmmap, crate::c30_mmapper::stub_dzmmap)] c30_op_from6; // tier=wip timeout=1500 loops=c30_mmapper::one_op:17+c30_mmapper::query:17+c30_mmapper::seed:9
    #[kani::unwind(9)] #[kani::stub(alloc::fmt::format, crate::env::stub_format)] #[kani::stub(<mmtk::util::os::OS as mmtk::util::os::OSMemory>::dzmmap, crate::c30_mmapper::stub_dzmmap)] c30_op_from2; // tier=wip timeout=1500 loops=c30_mmapper::one_op:17+c30_mmapper::query:17+c30_mmapper::seed:9
    #[kani::unwind(9)] #[kani::stub(alloc::fmt::format, crate::env::stub_format)] #[kani::stub(<mmtk::util::os::OS as mmtk::util::os::OSMemory>::dzmmap, crate::c30_mmapper::stub_dzmmap)] c30_op_from3; // tier=wip timeout=1500 loops=c30_mmapper::one_op:17+c30_mmapper::query:17+c30_mmapper::seed:9
    #[kani::unwind(9)] #[kani::stub(alloc::fmt::format, crate::env::stub_format)] #[kani::stub(<mmtk::util::os::OS as mmtk::util::os::OSMemory>::dzmmap, crate::c30_mmapper::stub_dzmmap)] c30_op_from4; // tier=wip timeout=1500 loops=c30_mmapper::one_op:17+c30_mmapper::query:17+c30_mmapper::seed:9
    #[kani::unwind(9)] #[kani::stub(alloc::fmt::format, crate::env::stub_format)] #[kani::stub(<mmtk::util::os::OS as mmtk::util::os::OSMemory>::dzmmap, crate::c30_mmapper::stub_dzmmap)] c30_op_from5; // tier=wip timeout=1500 loops=c30_mmapper::one_op:17+c30_mmapper::query:17+c30_mmapper::seed:9
    #[kani::unwind(9)] #[kani::stub(alloc::fmt::format, crate::env::stub_format)] #[kani::stub(<mmtk::util::os::OS as mmtk::util::os::OSMemory>::dzmmap, crate::c30_mmapper::stub_dzmmap)] c30_op_from7; // tier=wip timeout=1500 loops=c30_mmapper::one_op:17+c30_mmapper::query:17+c30_mmapper::seed:9
    #[kani::unwind(9)] #[kani::stub(alloc::fmt::format, crate::env::stub_format)] #[kani::stub(<mmtk::util::os::OS as mmtk::util::os::OSMemory>::dzmmap, crate::c30_mmapper::stub_dzmmap)] c30_op_from11; // tier=wip timeout=1500 loops=c30_mmapper::one_op:17+c30_mmapper::query:17+c30_mmapper::seed:9
    #[kani::unwind(13)] #[kani::stub(alloc::fmt::format, crate::env::stub_format)] #[kani::stub(<mmtk::util::os::OS as mmtk::util::os::OSMemory>::dzmmap, crate::c30_mmapper::stub_dzmmap)] c30_op_wide_from2; // tier=wip timeout=3000 loops=c30_mmapper::one_op:17+c30_mmapper::query:17+c30_mmapper::seed:9
    #[kani::unwind(9)] #[kani::stub(alloc::fmt::format, crate::env::stub_format)] #[kani::stub(<mmtk::util::os::OS as mmtk::util::os::OSMemory>::dzmmap, crate::c30_mmapper::stub_dzmmap)] c30_two_ops_from6; // tier=wip timeout=3000 loops=c30_mmapper::one_op:17+c30_mmapper::query:17+c30_mmapper::seed:9
    #[kani::unwind(9)] #[kani::stub(alloc::fmt::format, crate::env::stub_format)] #[kani::stub(<mmtk::util::os::OS as mmtk::util::os::OSMemory>::dzmmap, crate::c30_mmapper::stub_dzmmap)] c30_one_op; // tier=wip timeout=1500 loops=c30_mmapper::one_op:17+c30_mmapper::query:17+c30_mmapper::seed:9
}
