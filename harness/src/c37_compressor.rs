//! C37 — Compressor forwarding addresses pack live objects in order.
//!
//! Real code: `ForwardingMetadata::{mark_last_word_of_object, calculate_offset_vector, forward}`,
//! `Transducer::{visit_mark_bit, encode, decode}`, `SideMetadataSpec::{fetch_or_atomic,
//! store_atomic, load_atomic, scan_non_zero_values (+_fast)}`, `scan_non_zero_bits_in_metadata_*`,
//! `RegionIterator<Block>`.
//! Heap: the first two 512-byte offset-vector blocks of a region (128 words); mark bitmap 16 bytes
//! (first metadata window), offset vector 2 words (second metadata window, 2^41 bytes further on
//! in the side-metadata space: E2 with two windows).  Up to two live objects with symbolic start
//! word and size, which may straddle the block boundary; their first-word bits are set with the
//! real `fetch_or_atomic`, their last-word bits with the real `mark_last_word_of_object`.
//! Oracle: `forward(o_i) == region_start + sum of the sizes of the live objects before o_i`.
//!
//! As built: the monolithic harness (`c37_forward_objects`, real scan, three `forward` calls) does not
//! finish; the claimed harnesses (`c37_forward_first/_second/_any`) make one `forward` call each and
//! replace `scan_non_zero_values` by the reference scan of env.rs (composition with C22); the offset
//! vector lives in a typed two-word window.  `c37_transducer_handoff` decides the block hand-off
//! algebra for every state.

use crate::env::*;
use crate::vm::*;
use crate::*;
use atomic::Ordering;
use mmtk::util::metadata::side_metadata::verif::spec_defs::{COMPRESSOR_MARK, COMPRESSOR_OFFSET_VECTOR};
use mmtk::util::{Address, ObjectReference};
use mmtk::verif_export::policy::compressor as cz;

pub const DATA_BASE: usize = 1 << 40; // region aligned
const WORDS: usize = 128;

fn addr(a: usize) -> Address {
    unsafe { Address::from_usize(a) }
}

/// The transducer hand-off between blocks: re-creating the state from its encoding at a block
/// start is indistinguishable, for every later mark bit, from carrying the state itself.
pub fn c37_transducer_handoff(s: &mut Src) {
    let to = s.any_usize();
    let last = s.any_usize();
    let pos = s.any_usize();
    let bit = s.any_usize();
    let in_object = s.any_bool();
    // word-aligned addresses below 2^47; the last visited bit is before the block start, the next
    // mark bit at or after it; `to` never exceeds the position (objects only move down)
    s.assume(to % 8 == 0 && last % 8 == 0 && pos % 512 == 0 && bit % 8 == 0);
    s.assume(pos < (1 << 47) && bit < (1 << 47) && last < pos && bit >= pos && to <= last);
    let direct = cz::visit_mark_bit(addr(to), addr(last), in_object, addr(bit));
    let enc = cz::encode(addr(to), addr(last), in_object, addr(pos));
    let (dto, dlast, dio) = cz::decode(enc, addr(pos));
    let via = cz::visit_mark_bit(dto, dlast, dio, addr(bit));
    chk!(s, "decode(encode(state)) continues to the same forwarding address", direct.0 == via.0);
    chk!(s, "decode(encode(state)) keeps the in-object flag", direct.2 == via.2 && dio == in_object);
    chk!(s, "outside an object the encoding is the forwarding address itself", in_object || enc == to);
    // a closing bit adds exactly the object's size (first word .. last word inclusive)
    if in_object {
        chk!(s, "a closing mark bit adds the distance from the opening bit plus one word", direct.0.as_usize() == to + (bit - last) + 8);
    } else {
        chk!(s, "an opening mark bit does not move the forwarding address", direct.0.as_usize() == to);
    }
    cov!(s, "state inside an object at the block boundary", in_object);
    cov!(s, "state outside an object at the block boundary", !in_object);
}

struct Heap {
    o1: usize,
    s1: usize,
    o2: usize,
    s2: usize,
    two: bool,
}

fn build(s: &mut Src) -> (cz::ForwardingMetadata<VmA>, Heap) {
    install_mmapper();
    unsafe {
        SWIN.0 = [0; SWIN_LEN];
    }
    swin_install(&COMPRESSOR_MARK, DATA_BASE);
    swin2_prepare(COMPRESSOR_OFFSET_VECTOR.offset - COMPRESSOR_MARK.offset);
    #[cfg(kani)]
    unsafe {
        OV = [0; OV_LEN];
    }
    let w1 = s.any_in(0, WORDS - 2);
    let n1 = s.any_in(2, WORDS);
    let two = s.any_bool();
    let w2 = s.any_in(0, WORDS - 2);
    let n2 = s.any_in(2, WORDS);
    s.assume(w1 + n1 <= WORDS);
    s.assume(!two || (w2 >= w1 + n1 && w2 + n2 <= WORDS));
    let h = Heap { o1: DATA_BASE + w1 * 8, s1: n1 * 8, o2: DATA_BASE + w2 * 8, s2: n2 * 8, two };
    unsafe {
        OBJ_TABLE[0] = (h.o1, h.s1);
        OBJ_TABLE[1] = if two { (h.o2, h.s2) } else { (0, 0) };
    }
    let fm = cz::ForwardingMetadata::<VmA>::new();
    // mark the live objects: first word (as CompressorSpace does when tracing) and last word
    COMPRESSOR_MARK.fetch_or_atomic::<u8>(addr(h.o1), 1, Ordering::SeqCst);
    fm.mark_last_word_of_object(unsafe { ObjectReference::from_raw_address_unchecked(addr(h.o1)) });
    if two {
        COMPRESSOR_MARK.fetch_or_atomic::<u8>(addr(h.o2), 1, Ordering::SeqCst);
        fm.mark_last_word_of_object(unsafe { ObjectReference::from_raw_address_unchecked(addr(h.o2)) });
    }
    cz::calculate_offset_vector(&fm, addr(DATA_BASE), addr(DATA_BASE + WORDS * 8));
    (fm, h)
}

/// Composed formulation (reference scan, see env.rs), one `forward` call per harness.
pub fn c37_forward_first(s: &mut Src) {
    let (fm, h) = build(s);
    let f1 = fm.forward(addr(h.o1)).as_usize();
    chk!(s, "the first live object is forwarded to the region start", f1 == DATA_BASE);
    cov!(s, "first object in the second block", h.o1 >= DATA_BASE + 512);
    cov!(s, "two-word object", h.s1 == 16);
}
pub fn c37_forward_second(s: &mut Src) {
    let (fm, h) = build(s);
    s.assume(h.two);
    let f2 = fm.forward(addr(h.o2)).as_usize();
    chk!(s, "the second live object is forwarded right after the first", f2 == DATA_BASE + h.s1);
    chk!(s, "forwarding preserves order, never moves an object up, and copies do not overlap", f2 >= DATA_BASE + h.s1 && f2 <= h.o2);
    let straddle1 = (h.o1 - DATA_BASE) / 512 != (h.o1 + h.s1 - 8 - DATA_BASE) / 512;
    cov!(s, "the first object straddles the block boundary", straddle1);
    cov!(s, "second object in the second block, first entirely in the first", h.o2 >= DATA_BASE + 512 && h.o1 + h.s1 <= DATA_BASE + 512);
    cov!(s, "both objects in the second block", h.o1 >= DATA_BASE + 512);
}
pub fn c37_forward_any(s: &mut Src) {
    let (fm, h) = build(s);
    // any word-aligned address that is not inside a live object: live bytes before it
    let q = s.any_in(0, WORDS - 1);
    let a = DATA_BASE + q * 8;
    let in1 = a > h.o1 && a < h.o1 + h.s1;
    let in2 = h.two && a > h.o2 && a < h.o2 + h.s2;
    s.assume(!in1 && !in2);
    let live_before = (if a >= h.o1 + h.s1 { h.s1 } else { 0 }) + (if h.two && a >= h.o2 + h.s2 { h.s2 } else { 0 });
    chk!(s, "an address outside live objects is forwarded past exactly the live bytes below it", fm.forward(addr(a)).as_usize() == DATA_BASE + live_before);
    cov!(s, "address in the second block after a straddling object", a >= DATA_BASE + 512 && h.o1 < DATA_BASE + 512 && h.o1 + h.s1 > DATA_BASE + 512);
    cov!(s, "address between two objects", h.two && a >= h.o1 + h.s1 && a < h.o2);
}

pub fn c37_forward_objects(s: &mut Src) {
    let (fm, h) = build(s);
    let f1 = fm.forward(addr(h.o1)).as_usize();
    chk!(s, "the first live object is forwarded to the region start", f1 == DATA_BASE);
    if h.two {
        let f2 = fm.forward(addr(h.o2)).as_usize();
        chk!(s, "the second live object is forwarded right after the first", f2 == DATA_BASE + h.s1);
        chk!(s, "forwarding preserves order, never moves an object up, and copies do not overlap", f2 >= f1 + h.s1 && f2 <= h.o2 && f1 <= h.o1);
    }
    // any word-aligned address that is not inside a live object: live bytes before it
    let q = s.any_in(0, WORDS - 1);
    let a = DATA_BASE + q * 8;
    let in1 = a > h.o1 && a < h.o1 + h.s1;
    let in2 = h.two && a > h.o2 && a < h.o2 + h.s2;
    if !in1 && !in2 {
        let live_before = (if a >= h.o1 + h.s1 { h.s1 } else { 0 }) + (if h.two && a >= h.o2 + h.s2 { h.s2 } else { 0 });
        chk!(s, "an address outside live objects is forwarded past exactly the live bytes below it", fm.forward(addr(a)).as_usize() == DATA_BASE + live_before);
    }
    let straddle1 = (h.o1 - DATA_BASE) / 512 != (h.o1 + h.s1 - 8 - DATA_BASE) / 512;
    cov!(s, "an object straddles the block boundary", straddle1);
    cov!(s, "second object in the second block, first entirely in the first", h.two && h.o2 >= DATA_BASE + 512 && h.o1 + h.s1 <= DATA_BASE + 512);
    cov!(s, "both objects in the second block", h.two && h.o1 >= DATA_BASE + 512);
    cov!(s, "two-word object", h.s1 == 16);
}

harnesses! {
    #[kani::unwind(2)] c37_transducer_handoff; // timeout=600
    #[kani::unwind(4)] #[kani::stub(alloc::fmt::format, crate::env::stub_format)] #[kani::stub(mmtk::util::Address::load, crate::env::stub2_addr_load)] #[kani::stub(<u8 as mmtk::util::metadata::MetadataValue>::fetch_or, crate::env::stub2_u8_fetch_or)] #[kani::stub(<usize as mmtk::util::metadata::MetadataValue>::store_atomic, crate::env::stub2_usize_store_atomic)] #[kani::stub(<usize as mmtk::util::metadata::MetadataValue>::load_atomic, crate::env::stub2_usize_load_atomic)] c37_forward_objects; // tier=wip timeout=1800 loops=in_metadata_bytes:10+in_metadata_word:10+in_metadata_bits:10
    #[kani::unwind(4)] #[kani::stub(alloc::fmt::format, crate::env::stub_format)] #[kani::stub(mmtk::util::Address::load, crate::env::stub2_addr_load)] #[kani::stub(<u8 as mmtk::util::metadata::MetadataValue>::fetch_or, crate::env::stub2_u8_fetch_or)] #[kani::stub(<usize as mmtk::util::metadata::MetadataValue>::store_atomic, crate::env::stub3_usize_store_atomic)] #[kani::stub(<usize as mmtk::util::metadata::MetadataValue>::load_atomic, crate::env::stub3_usize_load_atomic)] #[kani::stub(mmtk::util::metadata::side_metadata::SideMetadataSpec::scan_non_zero_values, crate::env::stub_scan_nzv)] c37_forward_first; // timeout=1500 loops=scan_non_zero_values:66
    #[kani::unwind(4)] #[kani::stub(alloc::fmt::format, crate::env::stub_format)] #[kani::stub(mmtk::util::Address::load, crate::env::stub2_addr_load)] #[kani::stub(<u8 as mmtk::util::metadata::MetadataValue>::fetch_or, crate::env::stub2_u8_fetch_or)] #[kani::stub(<usize as mmtk::util::metadata::MetadataValue>::store_atomic, crate::env::stub3_usize_store_atomic)] #[kani::stub(<usize as mmtk::util::metadata::MetadataValue>::load_atomic, crate::env::stub3_usize_load_atomic)] #[kani::stub(mmtk::util::metadata::side_metadata::SideMetadataSpec::scan_non_zero_values, crate::env::stub_scan_nzv)] c37_forward_second; // timeout=1800 loops=scan_non_zero_values:66
    #[kani::unwind(4)] #[kani::stub(alloc::fmt::format, crate::env::stub_format)] #[kani::stub(mmtk::util::Address::load, crate::env::stub2_addr_load)] #[kani::stub(<u8 as mmtk::util::metadata::MetadataValue>::fetch_or, crate::env::stub2_u8_fetch_or)] #[kani::stub(<usize as mmtk::util::metadata::MetadataValue>::store_atomic, crate::env::stub3_usize_store_atomic)] #[kani::stub(<usize as mmtk::util::metadata::MetadataValue>::load_atomic, crate::env::stub3_usize_load_atomic)] #[kani::stub(mmtk::util::metadata::side_metadata::SideMetadataSpec::scan_non_zero_values, crate::env::stub_scan_nzv)] c37_forward_any; // tier=thorough timeout=3600 loops=scan_non_zero_values:66
}
