//! Environment models (DESIGN.md §2.2).

use mmtk::util::metadata::side_metadata::{verif_set_side_metadata_base, SideMetadataSpec};
use mmtk::util::Address;

/// E1: install the (write-once) side-metadata base address through the verification hook.
pub fn set_side_base(base: usize) {
    verif_set_side_metadata_base(unsafe { Address::from_usize(base) }, 0);
}

/// A metadata window: real bytes standing for the slice of a side-metadata table that covers the
/// data range `[data_base, data_base + N << log_data_meta_ratio)`.
#[repr(C, align(64))]
pub struct Win<const N: usize>(pub [u8; N]);

impl<const N: usize> Win<N> {
    pub fn addr(&mut self) -> usize {
        self.0.as_mut_ptr() as usize
    }
    /// Choose the base so that `address_to_meta_address(spec, data_base)` is the window start.
    /// `data_base` must be aligned so that `data_base >> ratio` is exact.
    pub fn install(&mut self, spec: &SideMetadataSpec, data_base: usize) {
        let ratio = 3 + spec.log_bytes_in_region as isize - spec.log_num_of_bits as isize;
        let rel = if ratio >= 0 { data_base >> ratio } else { data_base << (-ratio) };
        set_side_base(self.addr() - spec.offset - rel);
    }
}

pub fn spec(offset: usize, log_num_of_bits: usize, log_bytes_in_region: usize) -> SideMetadataSpec {
    SideMetadataSpec {
        name: "verif",
        is_global: true,
        offset,
        log_num_of_bits,
        log_bytes_in_region,
    }
}

/// E8: formatting on error paths is not observed; `format!` returns an empty string.
pub fn stub_format(_args: core::fmt::Arguments<'_>) -> String {
    String::new()
}

// ---------------------------------------------------------------------------------------------
// E3/E5: the global MMAPPER is a harness object (installed through VERIF_MMAPPER_FACTORY before
// first use).  `is_mapped_address` answers from up to three `[lo, hi)` ranges set by the harness;
// mapping requests are recorded in a ghost log and succeed or fail as the harness decides.

use mmtk::util::os::{HugePageSupport, MmapAnnotation, MmapProtection, MmapResult};
use mmtk::verif_export::heap::{Mmapper, VERIF_MMAPPER_FACTORY};

pub static mut MAPPED: [(usize, usize); 3] = [(0, 0); 3];
pub static mut MMAP_LOG: [(usize, usize); 8] = [(0, 0); 8];
pub static mut MMAP_LOG_N: usize = 0;

pub struct HMmapper;

fn log_map(start: Address, bytes: usize) {
    unsafe {
        if MMAP_LOG_N < 8 {
            MMAP_LOG[MMAP_LOG_N] = (start.as_usize(), bytes);
        }
        MMAP_LOG_N += 1;
    }
}

impl Mmapper for HMmapper {
    fn log_granularity(&self) -> u8 {
        22
    }
    fn log_mappable_bytes(&self) -> u8 {
        48
    }
    fn mark_as_mapped(&self, start: Address, bytes: usize) {
        log_map(start, bytes)
    }
    fn quarantine_address_range(&self, start: Address, pages: usize, _h: HugePageSupport, _a: &MmapAnnotation) -> MmapResult<()> {
        log_map(start, pages << 12);
        Ok(())
    }
    fn quarantine_address_range_anywhere(&self, _pages: usize, _align: Option<usize>, _h: HugePageSupport, _a: &MmapAnnotation) -> MmapResult<Address> {
        unimplemented!()
    }
    fn quarantine_address_range_preferred(&self, _start: Address, _pages: usize, _align: Option<usize>, _h: HugePageSupport, _a: &MmapAnnotation) -> MmapResult<Address> {
        unimplemented!()
    }
    fn ensure_mapped(&self, start: Address, pages: usize, _h: HugePageSupport, _p: MmapProtection, _a: &MmapAnnotation) -> MmapResult<()> {
        log_map(start, pages << 12);
        Ok(())
    }
    fn is_mapped_address(&self, addr: Address) -> bool {
        let a = addr.as_usize();
        unsafe { (a >= MAPPED[0].0 && a < MAPPED[0].1) || (a >= MAPPED[1].0 && a < MAPPED[1].1) || (a >= MAPPED[2].0 && a < MAPPED[2].1) }
    }
}

fn make_mmapper() -> Box<dyn Mmapper> {
    Box::new(HMmapper)
}

/// Must run before the first use of the global MMAPPER.
pub fn install_mmapper() {
    unsafe {
        VERIF_MMAPPER_FACTORY = Some(make_mmapper);
    }
    // Force the lazy initialisation now, on a concrete path: if the first use happened under a
    // symbolic branch, the `Once` state would become symbolic and every later access would
    // re-explore the initialisation.
    let _ = mmtk::verif_export::heap::MMAPPER.granularity();
}

// ---------------------------------------------------------------------------------------------
// E2: window memory.  Plain `Address::load` of code that scans tables in loops is redirected (Kani
// stub) to a static buffer addressed by offset from a *concrete* base, which the solver handles as
// an array read instead of a dereference of an integer-derived pointer.  Natively there is no
// stub: the base is the buffer's real address and the real `Address::load` reads the same bytes.

pub const SWIN_LEN: usize = 64;
#[repr(C, align(64))]
pub struct SWin(pub [u8; SWIN_LEN]);
pub static mut SWIN: SWin = SWin([0; SWIN_LEN]);

pub fn swin_base() -> usize {
    #[cfg(kani)]
    {
        0x6000_0000_0000
    }
    #[cfg(not(kani))]
    {
        unsafe { SWIN.0.as_ptr() as usize }
    }
}

/// Install the base so that the table slice of `spec` for data starting at `data_base` is SWIN.
pub fn swin_install(spec: &SideMetadataSpec, data_base: usize) {
    let ratio = 3 + spec.log_bytes_in_region as isize - spec.log_num_of_bits as isize;
    let rel = if ratio >= 0 { data_base >> ratio } else { data_base << (-ratio) };
    set_side_base(swin_base() - spec.offset - rel);
}

#[cfg(kani)]
pub unsafe fn stub_addr_load<T: Copy>(a: Address) -> T {
    let off = a.as_usize().wrapping_sub(swin_base());
    kani::assert(off < SWIN_LEN && off + core::mem::size_of::<T>() <= SWIN_LEN, "load outside the metadata window");
    core::ptr::read_unaligned(SWIN.0.as_ptr().add(off) as *const T)
}
#[cfg(not(kani))]
pub unsafe fn stub_addr_load<T: Copy>(a: Address) -> T {
    a.load::<T>()
}

/// Stub for `Address::is_mapped` (E3): answers from the MAPPED ranges without going through the
/// global MMAPPER object.
pub fn stub_is_mapped(a: Address) -> bool {
    let a = a.as_usize();
    unsafe { a != 0 && ((a >= MAPPED[0].0 && a < MAPPED[0].1) || (a >= MAPPED[1].0 && a < MAPPED[1].1) || (a >= MAPPED[2].0 && a < MAPPED[2].1)) }
}

// ---------------------------------------------------------------------------------------------
// E2, two windows (C37): the first half of SWIN is the table slice of one spec, the second half
// the slice of a second spec whose table lies `SWIN2_DELTA` bytes further on in the side-metadata
// address space.  Under Kani every access is redirected by stubs to SWIN; natively the second
// window is a real page mapped at that distance from SWIN.

pub const SWIN_HALF: usize = SWIN_LEN / 2;
pub static mut SWIN2_DELTA: usize = 0;

/// Native only: map the page that holds the second window.
pub fn swin2_prepare(delta: usize) {
    unsafe {
        SWIN2_DELTA = delta;
    }
    #[cfg(not(kani))]
    {
        use mmtk::util::os::*;
        let a = swin_base() + delta;
        let page = a & !4095;
        let strategy = MmapStrategy::new(HugePageSupport::No, MmapProtection::ReadWrite, false, true);
        let _ = OS::dzmmap(unsafe { Address::from_usize(page) }, 8192, strategy, &MmapAnnotation::Misc { name: "verif-swin2" });
    }
}

/// Index into SWIN for a (fake) metadata address of either window, or SWIN_LEN if outside.
#[cfg(kani)]
fn swin_index(a: usize, size: usize) -> usize {
    let b = swin_base();
    let d = unsafe { SWIN2_DELTA };
    if a >= b && a + size <= b + SWIN_HALF {
        a - b
    } else if d != 0 && a >= b + d && a + size <= b + d + SWIN_HALF {
        SWIN_HALF + (a - b - d)
    } else {
        SWIN_LEN
    }
}

/// Read/write byte `i` of the second window (oracle side).
pub fn swin2_get(i: usize) -> u8 {
    #[cfg(kani)]
    unsafe {
        SWIN.0[SWIN_HALF + i]
    }
    #[cfg(not(kani))]
    unsafe {
        *((swin_base() + SWIN2_DELTA + i) as *const u8)
    }
}

#[cfg(kani)]
pub unsafe fn stub2_addr_load<T: Copy>(a: Address) -> T {
    let i = swin_index(a.as_usize(), core::mem::size_of::<T>());
    kani::assert(i < SWIN_LEN, "load outside the metadata windows");
    core::ptr::read_unaligned(SWIN.0.as_ptr().add(i) as *const T)
}
#[cfg(not(kani))]
pub unsafe fn stub2_addr_load<T: Copy>(a: Address) -> T {
    a.load::<T>()
}

#[cfg(kani)]
pub unsafe fn stub2_u8_fetch_or(a: Address, v: u8, _o: core::sync::atomic::Ordering) -> u8 {
    let i = swin_index(a.as_usize(), 1);
    kani::assert(i < SWIN_LEN, "fetch_or outside the metadata windows");
    let old = SWIN.0[i];
    SWIN.0[i] = old | v;
    old
}
#[cfg(not(kani))]
pub unsafe fn stub2_u8_fetch_or(a: Address, v: u8, o: core::sync::atomic::Ordering) -> u8 {
    <u8 as mmtk::util::metadata::MetadataValue>::fetch_or(a, v, o)
}

#[cfg(kani)]
pub unsafe fn stub2_usize_store_atomic(a: Address, v: usize, _o: core::sync::atomic::Ordering) {
    let i = swin_index(a.as_usize(), 8);
    kani::assert(i < SWIN_LEN, "store outside the metadata windows");
    core::ptr::write_unaligned(SWIN.0.as_mut_ptr().add(i) as *mut usize, v);
}
#[cfg(not(kani))]
pub unsafe fn stub2_usize_store_atomic(a: Address, v: usize, o: core::sync::atomic::Ordering) {
    <usize as mmtk::util::metadata::MetadataValue>::store_atomic(a, v, o)
}

#[cfg(kani)]
pub unsafe fn stub2_usize_load_atomic(a: Address, _o: core::sync::atomic::Ordering) -> usize {
    let i = swin_index(a.as_usize(), 8);
    kani::assert(i < SWIN_LEN, "load outside the metadata windows");
    core::ptr::read_unaligned(SWIN.0.as_ptr().add(i) as *const usize)
}
#[cfg(not(kani))]
pub unsafe fn stub2_usize_load_atomic(a: Address, o: core::sync::atomic::Ordering) -> usize {
    <usize as mmtk::util::metadata::MetadataValue>::load_atomic(a, o)
}


// ---------------------------------------------------------------------------------------------
// C37 composition: typed offset-vector window and the reference scan.
//
// `SideMetadataSpec::scan_non_zero_values` is replaced (Kani stub) by the naive word-by-word scan
// below, which reads each bit with the real `SideMetadataSpec::load`.  That the real scan visits exactly the
// non-zero regions in ascending order is what C22 decides (scan harnesses); C37 composes on it.
// Natively (replay) nothing is stubbed: the real scan runs.

pub const OV_LEN: usize = 4;
pub static mut OV: [usize; OV_LEN] = [0; OV_LEN];

#[cfg(kani)]
fn ov_index(a: usize) -> usize {
    let b = swin_base() + unsafe { SWIN2_DELTA };
    if a >= b && a % 8 == 0 && a < b + OV_LEN * 8 {
        (a - b) / 8
    } else {
        OV_LEN
    }
}

#[cfg(kani)]
pub unsafe fn stub3_usize_store_atomic(a: Address, v: usize, _o: core::sync::atomic::Ordering) {
    let i = ov_index(a.as_usize());
    kani::assert(i < OV_LEN, "store outside the offset-vector window");
    OV[i] = v;
}
#[cfg(not(kani))]
pub unsafe fn stub3_usize_store_atomic(a: Address, v: usize, o: core::sync::atomic::Ordering) {
    <usize as mmtk::util::metadata::MetadataValue>::store_atomic(a, v, o)
}

#[cfg(kani)]
pub unsafe fn stub3_usize_load_atomic(a: Address, _o: core::sync::atomic::Ordering) -> usize {
    let i = ov_index(a.as_usize());
    kani::assert(i < OV_LEN, "load outside the offset-vector window");
    OV[i]
}
#[cfg(not(kani))]
pub unsafe fn stub3_usize_load_atomic(a: Address, o: core::sync::atomic::Ordering) -> usize {
    <usize as mmtk::util::metadata::MetadataValue>::load_atomic(a, o)
}

/// Read offset-vector entry `i` (oracle side).
pub fn ov_get(i: usize) -> usize {
    #[cfg(kani)]
    unsafe {
        OV[i]
    }
    #[cfg(not(kani))]
    unsafe {
        *((swin_base() + SWIN2_DELTA + i * 8) as *const usize)
    }
}

/// Reference scan standing for `SideMetadataSpec::scan_non_zero_values` (one bit per word specs).
pub fn stub_scan_nzv<T: mmtk::util::metadata::MetadataValue, F: FnMut(Address)>(spec: &SideMetadataSpec, start: Address, end: Address, visit: &mut F) {
    let mut a = start;
    while a < end {
        if unsafe { spec.load::<u8>(a) } != 0 {
            visit(a);
        }
        a += 8usize;
    }
}
