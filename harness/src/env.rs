//! Environment models (DESIGN.md §2.2).

use mmtk::util::metadata::side_metadata::{verif_set_side_metadata_base, SideMetadataSpec};
use mmtk::util::Address;

/// E1: install the (write-once) side-metadata base address through the verification hook.
pub fn set_side_base(base: usize) {
    verif_set_side_metadata_base(unsafe { Address::from_usize(base) }, 0);
}

/// A metadata window: real bytes standing for the slice of a side-metadata table that covers the
/// data range `[data_base, data_base + N << log_data_meta_ratio)`.
#[repr(C, align(64))]
pub struct Win<const N: usize>(pub [u8; N]);

impl<const N: usize> Win<N> {
    pub fn addr(&mut self) -> usize {
        self.0.as_mut_ptr() as usize
    }
    /// Choose the base so that `address_to_meta_address(spec, data_base)` is the window start.
    /// `data_base` must be aligned so that `data_base >> ratio` is exact.
    pub fn install(&mut self, spec: &SideMetadataSpec, data_base: usize) {
        let ratio = 3 + spec.log_bytes_in_region as isize - spec.log_num_of_bits as isize;
        let rel = if ratio >= 0 { data_base >> ratio } else { data_base << (-ratio) };
        set_side_base(self.addr() - spec.offset - rel);
    }
}

pub fn spec(offset: usize, log_num_of_bits: usize, log_bytes_in_region: usize) -> SideMetadataSpec {
    SideMetadataSpec {
        name: "verif",
        is_global: true,
        offset,
        log_num_of_bits,
        log_bytes_in_region,
    }
}

/// E8: formatting on error paths is not observed; `format!` returns an empty string.
pub fn stub_format(_args: core::fmt::Arguments<'_>) -> String {
    String::new()
}
