//! Environment models (DESIGN.md §2.2).
