//! C33 — alignment and size arithmetic meet their specifications.
//!
//! Real code: `align_allocation(_no_fill|_inner)`, `get_maximum_aligned_size(_inner)`,
//! `fill_alignment_gap`, `raw_align_up/down`, `raw_is_aligned`, `rshift_align_up`,
//! `bytes_to_pages_up`, `pages_to_bytes`, `bytes_to_chunks_up`, `chunk_align_up/down`,
//! `page_align_down`, `Address::{align_up, align_down, is_aligned_to}`.
//! Inputs are full-width `usize`; alignments are symbolic powers of two.  Oracles are stated with
//! masks (x % 2^k == x & (2^k-1)), so no division reaches the solver.

use crate::vm::*;
use crate::*;
use mmtk::util::alloc::fill_alignment_gap;
use mmtk::util::constants::*;
use mmtk::util::conversions::*;
use mmtk::util::heap::vm_layout::{BYTES_IN_CHUNK, LOG_BYTES_IN_CHUNK};
use mmtk::util::Address;
use mmtk::verif_export::allocator::*;
use mmtk::vm::VMBinding;

fn any_pow2(s: &mut Src, lo_log: usize, hi_log: usize) -> usize {
    let k = s.any_usize();
    s.assume(k >= lo_log && k <= hi_log);
    1usize << k
}

/// `align_allocation_inner` without gap filling over the full address range.
fn align_no_fill<VM: VMBinding>(s: &mut Src) {
    let log_min = VM::MIN_ALIGNMENT.trailing_zeros() as usize;
    let log_max = VM::MAX_ALIGNMENT.trailing_zeros() as usize;
    let alignment = any_pow2(s, log_min, log_max);
    let known = any_pow2(s, log_min, 12);
    let region = s.any_usize();
    let offset = s.any_usize();
    // Documented preconditions (the function's own debug assertions) ...
    s.assume(offset & (VM::MIN_ALIGNMENT - 1) == 0);
    // ... `known_alignment` means: the caller knows `region` (and the offset it asks for) is
    // aligned that much; with known == MIN_ALIGNMENT this is the public precondition.
    s.assume(region & (known - 1) == 0);
    s.assume(offset & (known - 1) == 0);
    // "for every input that does not overflow": the result must be representable, and the
    // offset must be negatable as the signed value the code converts it to.
    s.assume(region <= usize::MAX - VM::MAX_ALIGNMENT);
    // `Address + isize` is signed arithmetic: region + gap must not cross 2^63 either.
    s.assume(region < (1usize << 63) - VM::MAX_ALIGNMENT || region >= (1usize << 63));
    s.assume(offset <= isize::MAX as usize);
    let use_inner = s.any_bool();
    if !use_inner {
        s.assume(known == VM::MIN_ALIGNMENT);
    }
    let r = if use_inner {
        align_allocation_inner::<VM>(unsafe { Address::from_usize(region) }, alignment, offset, known, false)
    } else {
        align_allocation_no_fill::<VM>(unsafe { Address::from_usize(region) }, alignment, offset)
    }
    .as_usize();
    chk!(s, "aligned address is not below the region", r >= region);
    // offset is only known to be a multiple of MIN_ALIGNMENT: alignment beyond `known` is the
    // function's job, alignment up to `known` holds when the offset is aligned that much too.
    if alignment > known || offset & (alignment - 1) == 0 {
        chk!(s, "result plus offset is a multiple of the alignment", r.wrapping_add(offset) & (alignment - 1) == 0);
    }
    chk!(s, "result is the least such address (gap smaller than the alignment)", r - region < alignment);
    // get_maximum_aligned_size bounds the padded size.
    let size = s.any_usize();
    s.assume(size & (known - 1) == 0);
    s.assume(size <= (1usize << 48));
    let max = get_maximum_aligned_size_inner::<VM>(size, alignment, known);
    chk!(s, "get_maximum_aligned_size bounds gap plus size", (r - region) + size <= max);
    chk!(s, "get_maximum_aligned_size is at least the size", max >= size);
    cov!(s, "padding needed", r > region);
    cov!(s, "no padding needed", r == region);
    cov!(s, "non-zero offset", offset != 0);
    cov!(s, "region in the upper half of the address space", region > (1usize << 63));
}

/// VmA: MAX_ALIGNMENT == MIN_ALIGNMENT, so no request ever needs padding.
pub fn c33_align_no_fill_vma(s: &mut Src) {
    let region = s.any_usize();
    let offset = s.any_usize();
    s.assume(region & 7 == 0 && offset & 7 == 0);
    let r = align_allocation_no_fill::<VmA>(unsafe { Address::from_usize(region) }, 8, offset);
    chk!(s, "MIN == MAX alignment: region returned unchanged", r.as_usize() == region);
    chk!(s, "MIN == MAX alignment: result plus offset aligned", r.as_usize().wrapping_add(offset) & 7 == 0);
    cov!(s, "non-zero offset", offset != 0);
}
pub fn c33_align_no_fill_vmb(s: &mut Src) {
    align_no_fill::<VmB>(s)
}
pub fn c33_align_no_fill_vmd(s: &mut Src) {
    align_no_fill::<VmD>(s)
}
pub fn c33_max_aligned_vmd(s: &mut Src) {
    max_aligned::<VmD>(s)
}
pub fn c33_align_no_fill_vmc(s: &mut Src) {
    align_no_fill::<VmC>(s)
}

#[repr(C, align(64))]
pub struct Buf(pub [u8; 192]);

/// `align_allocation` with gap filling (VmB: MIN 4, MAX 64, ALIGNMENT_VALUE 0xab) on a real
/// buffer: exactly the gap `[region, result)` is filled, nothing else is written.
pub fn c33_align_fill_vmb(s: &mut Src) {
    let mut buf = Buf([0u8; 192]);
    // Pre-state: a pattern different from the fill value (fieldwise compare afterwards).
    let pat = s.any_u8();
    s.assume(pat != 0xab);
    let mut i = 0;
    while i < 192 {
        buf.0[i] = pat;
        i += 1;
    }
    let base = Address::from_mut_ptr(buf.0.as_mut_ptr());
    let k = s.any_usize();
    s.assume(k < 32); // region anywhere in the first 128 bytes, MIN_ALIGNMENT-aligned
    let region = base + 4 * k;
    let alignment = any_pow2(s, 2, 6);
    let offset = s.any_usize();
    s.assume(offset & 3 == 0 && offset <= isize::MAX as usize);
    let r = align_allocation::<VmB>(region, alignment, offset);
    chk!(s, "fill variant: not below the region", r >= region);
    chk!(s, "fill variant: result plus offset aligned", (r.as_usize().wrapping_add(offset)) & (alignment - 1) == 0);
    chk!(s, "fill variant: least such address", r - region < alignment);
    let lo = region - base;
    let hi = r - base;
    let mut j = 0;
    let mut ok_gap = true;
    let mut ok_frame = true;
    while j < 192 {
        if j >= lo && j < hi {
            ok_gap &= buf.0[j] == 0xab;
        } else {
            ok_frame &= buf.0[j] == pat;
        }
        j += 1;
    }
    chk!(s, "alignment gap is filled with ALIGNMENT_VALUE", ok_gap);
    chk!(s, "nothing outside the gap is written", ok_frame);
    cov!(s, "gap of at least 32 bytes", hi - lo >= 32);
    cov!(s, "empty gap", hi == lo);
}

/// `fill_alignment_gap` alone with arbitrary in-buffer bounds.
pub fn c33_fill_gap_vmb(s: &mut Src) {
    let mut buf = Buf([0u8; 192]);
    let base = Address::from_mut_ptr(buf.0.as_mut_ptr());
    let lo = s.any_usize();
    let hi = s.any_usize();
    s.assume(lo <= hi && hi <= 64);
    fill_alignment_gap::<VmB>(base + lo, base + hi);
    let mut j = 0;
    let mut ok = true;
    while j < 66 {
        ok &= buf.0[j] == if j >= lo && j < hi { 0xab } else { 0 };
        j += 1;
    }
    chk!(s, "fill_alignment_gap writes exactly [start, end)", ok);
    cov!(s, "non-empty gap", hi > lo);
}

/// get_maximum_aligned_size (public form) for each VM.
fn max_aligned<VM: VMBinding>(s: &mut Src) {
    let log_min = VM::MIN_ALIGNMENT.trailing_zeros() as usize;
    let log_max = VM::MAX_ALIGNMENT.trailing_zeros() as usize;
    let alignment = any_pow2(s, log_min, log_max);
    let size = s.any_usize();
    s.assume(size & (VM::MIN_ALIGNMENT - 1) == 0 && size <= usize::MAX - 2 * VM::MAX_ALIGNMENT);
    let m = get_maximum_aligned_size::<VM>(size, alignment);
    // Worst case over every MIN_ALIGNMENT-aligned region: gap <= alignment - MIN_ALIGNMENT.
    let worst = if alignment > VM::MIN_ALIGNMENT { alignment - VM::MIN_ALIGNMENT } else { 0 };
    chk!(s, "maximum aligned size = size + worst-case gap", m == size + worst);
    cov!(s, "alignment above the minimum", alignment > VM::MIN_ALIGNMENT);
    cov!(s, "alignment equal to the minimum", alignment == VM::MIN_ALIGNMENT);
}
pub fn c33_max_aligned_vmb(s: &mut Src) {
    max_aligned::<VmB>(s)
}
pub fn c33_max_aligned_vmc(s: &mut Src) {
    max_aligned::<VmC>(s)
}
pub fn c33_max_aligned_vma(s: &mut Src) {
    let size = s.any_usize();
    s.assume(size & 7 == 0);
    chk!(s, "no padding when MAX_ALIGNMENT == MIN_ALIGNMENT", get_maximum_aligned_size::<VmA>(size, 8) == size);
    cov!(s, "large size", size > (1 << 40));
}

/// raw_align_up / raw_align_down / raw_is_aligned, Address::{align_up, align_down, is_aligned_to}.
pub fn c33_raw_align(s: &mut Src) {
    let v = s.any_usize();
    let a = any_pow2(s, 0, 63);
    let d = raw_align_down(v, a);
    chk!(s, "raw_align_down: multiple of align", d & (a - 1) == 0);
    chk!(s, "raw_align_down: greatest multiple not above val", d <= v && v - d < a);
    chk!(s, "raw_is_aligned iff multiple", raw_is_aligned(v, a) == (v & (a - 1) == 0));
    chk!(s, "raw_is_aligned iff align_down is identity", raw_is_aligned(v, a) == (d == v));
    let addr = unsafe { Address::from_usize(v) };
    chk!(s, "Address::align_down agrees", addr.align_down(a).as_usize() == d);
    chk!(s, "Address::is_aligned_to agrees", addr.is_aligned_to(a) == (d == v));
    // align_up: for every input that does not overflow
    if v <= usize::MAX - (a - 1) {
        let u = raw_align_up(v, a);
        chk!(s, "raw_align_up: multiple of align", u & (a - 1) == 0);
        chk!(s, "raw_align_up: least multiple not below val", u >= v && u - v < a);
        chk!(s, "Address::align_up agrees", addr.align_up(a).as_usize() == u);
        cov!(s, "align_up moved the value", u > v);
    }
    cov!(s, "already aligned", d == v && a > 1);
    cov!(s, "alignment 2^63", a == 1usize << 63);
}

pub fn c33_rshift_align_up(s: &mut Src) {
    let num = s.any_usize();
    let bits = s.any_usize();
    s.assume(bits < 64);
    let unit = 1usize << bits;
    s.assume(num <= usize::MAX - (unit - 1));
    let r = rshift_align_up(num, bits);
    // r = ceil(num / 2^bits): r*2^bits >= num > (r-1)*2^bits, stated with shifts.
    let floor = num >> bits;
    let inexact = num & (unit - 1) != 0; // then floor < usize::MAX
    chk!(s, "rshift_align_up: floor when exact, floor+1 when bits are shifted out", r == if inexact { floor + 1 } else { floor });
    cov!(s, "rounded up", num & (unit - 1) != 0 && bits > 3);
    cov!(s, "exact", num & (unit - 1) == 0 && num != 0);
}

pub fn c33_pages_chunks(s: &mut Src) {
    let b = s.any_usize();
    s.assume(b <= usize::MAX - BYTES_IN_CHUNK);
    let p = bytes_to_pages_up(b);
    chk!(s, "bytes_to_pages_up: pages cover the bytes", (p << LOG_BYTES_IN_PAGE) >= b);
    chk!(s, "bytes_to_pages_up: least such page count", (p << LOG_BYTES_IN_PAGE) - b < BYTES_IN_PAGE);
    let c = bytes_to_chunks_up(b);
    chk!(s, "bytes_to_chunks_up: chunks cover the bytes", (c << LOG_BYTES_IN_CHUNK) >= b);
    chk!(s, "bytes_to_chunks_up: least such chunk count", (c << LOG_BYTES_IN_CHUNK) - b < BYTES_IN_CHUNK);
    let pg = s.any_usize();
    s.assume(pg <= usize::MAX >> LOG_BYTES_IN_PAGE);
    chk!(s, "pages_to_bytes then bytes_to_pages_up is the identity", bytes_to_pages_up(pages_to_bytes(pg)) == pg);
    chk!(s, "pages_to_bytes is pages * page size", pages_to_bytes(pg) >> LOG_BYTES_IN_PAGE == pg && pages_to_bytes(pg) & (BYTES_IN_PAGE - 1) == 0);
    let a = unsafe { Address::from_usize(b) };
    let up = chunk_align_up(a).as_usize();
    let dn = chunk_align_down(a).as_usize();
    chk!(s, "chunk_align_up: least chunk boundary not below", up >= b && up - b < BYTES_IN_CHUNK && up & (BYTES_IN_CHUNK - 1) == 0);
    chk!(s, "chunk_align_down: greatest chunk boundary not above", dn <= b && b - dn < BYTES_IN_CHUNK && dn & (BYTES_IN_CHUNK - 1) == 0);
    let pd = page_align_down(a).as_usize();
    chk!(s, "page_align_down: greatest page boundary not above", pd <= b && b - pd < BYTES_IN_PAGE && pd & (BYTES_IN_PAGE - 1) == 0);
    chk!(s, "is_page_aligned iff page_align_down is identity", is_page_aligned(a) == (pd == b));
    chk!(s, "chunk index round trip", chunk_index_to_address(address_to_chunk_index(a)).as_usize() == dn);
    cov!(s, "partial page", b & (BYTES_IN_PAGE - 1) != 0);
    cov!(s, "partial chunk", b & (BYTES_IN_CHUNK - 1) != 0 && b > BYTES_IN_CHUNK);
}

harnesses! {
    #[kani::unwind(2)] c33_align_no_fill_vma;
    #[kani::unwind(2)] c33_align_no_fill_vmb;
    #[kani::unwind(2)] c33_align_no_fill_vmc;
    #[kani::unwind(2)] c33_align_no_fill_vmd; // tier=thorough
    #[kani::unwind(2)] c33_max_aligned_vmd; // tier=thorough
    #[kani::unwind(194)] c33_align_fill_vmb;
    #[kani::unwind(68)] c33_fill_gap_vmb;
    #[kani::unwind(2)] c33_max_aligned_vma;
    #[kani::unwind(2)] c33_max_aligned_vmb;
    #[kani::unwind(2)] c33_max_aligned_vmc;
    #[kani::unwind(2)] c33_raw_align;
    #[kani::unwind(2)] c33_rshift_align_up;
    #[kani::unwind(2)] c33_pages_chunks;
}
