//! C40 — revisitable group-by partitions its input into maximal runs.
//!
//! Real code: `RevisitableGroupByForIterator::revisitable_group_by`, `RevisitableGroupBy::next`,
//! `RevisitableGroup::next` instantiated with `I = Copied<slice::Iter<u8>>`, `K = u8`, driven by
//! the `verif_group_by` hook.  The key function is a lookup in a symbolic 4-entry table, i.e.
//! every key function over a 4-value item domain.

use crate::*;
use mmtk::verif_export::rust_util::verif_group_by;

const N: usize = 6;

struct Rec {
    keys: [u8; N],
    lens: [usize; N],
    groups: usize,
    out: [u8; N],
    out_group: [usize; N],
    out_n: usize,
}

/// An iterator whose `size_hint` is any answer the `Iterator` contract allows
/// (`lo <= remaining <= hi`, or no upper bound), chosen by the solver per harness run.
#[derive(Clone)]
struct HintIter {
    data: [u8; N],
    pos: usize,
    len: usize,
    lo_slack: usize,
    hi_slack: Option<usize>,
}
impl Iterator for HintIter {
    type Item = u8;
    fn next(&mut self) -> Option<u8> {
        if self.pos < self.len {
            self.pos += 1;
            Some(self.data[self.pos - 1])
        } else {
            None
        }
    }
    fn size_hint(&self) -> (usize, Option<usize>) {
        let rem = self.len - self.pos;
        (rem.saturating_sub(self.lo_slack), self.hi_slack.map(|h| rem + h))
    }
}

fn run(items: &[u8], table: [u8; 4], want: [usize; N]) -> Rec {
    run_iter(items.iter().copied(), table, want)
}

fn run_iter<I: Iterator<Item = u8> + Clone>(iter: I, table: [u8; 4], want: [usize; N]) -> Rec {
    let mut r = Rec { keys: [0; N], lens: [0; N], groups: 0, out: [0; N], out_group: [0; N], out_n: 0 };
    {
        let rp = &mut r as *mut Rec;
        verif_group_by(
            iter,
            |x: &u8| table[(*x & 3) as usize],
            |k, len| unsafe {
                let r = &mut *rp;
                let g = r.groups;
                if g < N {
                    r.keys[g] = k;
                    r.lens[g] = len;
                }
                r.groups += 1;
                if g < N { want[g] } else { 0 }
            },
            |x| unsafe {
                let r = &mut *rp;
                if r.out_n < N {
                    r.out[r.out_n] = x;
                    r.out_group[r.out_n] = r.groups - 1;
                }
                r.out_n += 1;
            },
        );
    }
    r
}

/// Every group fully consumed (asking for more than `len` items: the group must stop by itself).
pub fn c40_full(s: &mut Src) {
    full(s, false)
}
/// Same obligations over an iterator type with arbitrary contract-conforming `size_hint`s.
pub fn c40_full_any_size_hint(s: &mut Src) {
    full(s, true)
}

fn full(s: &mut Src, custom: bool) {
    let items: [u8; N] = s.any_bytes::<N>();
    let n = s.any_usize();
    s.assume(n <= N);
    let table: [u8; 4] = s.any_bytes::<4>();
    let r = if custom {
        let lo_slack = s.any_in(0, N);
        let hi_slack = if s.any_bool() { Some(s.any_in(0, N)) } else { None };
        run_iter(HintIter { data: items, pos: 0, len: n, lo_slack, hi_slack }, table, [usize::MAX; N])
    } else {
        run(&items[..n], table, [usize::MAX; N])
    };
    chk!(s, "number of groups is at most the number of items", r.groups <= n);
    chk!(s, "groups concatenate to the input: same number of items", r.out_n == n);
    let mut i = 0;
    let mut concat_ok = true;
    let mut key_ok = true;
    while i < N {
        if i < n && i < r.out_n {
            concat_ok &= r.out[i] == items[i];
            let g = r.out_group[i];
            key_ok &= g < N && table[(items[i] & 3) as usize] == r.keys[g];
        }
        i += 1;
    }
    chk!(s, "groups concatenate to the input: same items in the same order", concat_ok);
    chk!(s, "every item of a group maps to the group's key", key_ok);
    let mut g = 0;
    let mut sum = 0usize;
    let mut nonempty = true;
    let mut adjacent_differ = true;
    let mut len_ok = true;
    while g < N {
        if g < r.groups {
            nonempty &= r.lens[g] >= 1;
            if g > 0 {
                adjacent_differ &= r.keys[g] != r.keys[g - 1];
            }
            // reported length == number of items yielded by that group
            let mut c = 0;
            let mut j = 0;
            while j < N {
                if j < r.out_n && r.out_group[j] == g {
                    c += 1;
                }
                j += 1;
            }
            len_ok &= c == r.lens[g];
            sum += r.lens[g];
        }
        g += 1;
    }
    chk!(s, "each group is non-empty", nonempty);
    chk!(s, "adjacent groups have different keys (runs are maximal)", adjacent_differ);
    chk!(s, "each group's reported length equals its item count", len_ok);
    chk!(s, "reported lengths sum to the input length", sum == n);
    chk!(s, "empty input gives no group", n != 0 || r.groups == 0);
    cov!(s, "three or more groups", r.groups >= 3);
    cov!(s, "single run of full length", r.groups == 1 && n == N);
    cov!(s, "empty input", n == 0);
    cov!(s, "two different items share a key", n >= 2 && items[0] & 3 != items[1] & 3 && r.groups == 1);
}

/// Groups consumed partially or not at all: the outer iterator is not disturbed (same groups,
/// same keys and lengths), and each group yields exactly the first `min(want, len)` of its items.
pub fn c40_partial(s: &mut Src) {
    let items: [u8; N] = s.any_bytes::<N>();
    let n = s.any_usize();
    s.assume(n <= N);
    let table: [u8; 4] = s.any_bytes::<4>();
    let mut want = [0usize; N];
    let mut i = 0;
    while i < N {
        want[i] = s.any_usize();
        s.assume(want[i] <= N + 1);
        i += 1;
    }
    let full = run(&items[..n], table, [usize::MAX; N]);
    let part = run(&items[..n], table, want);
    chk!(s, "partial consumption does not change the number of groups", full.groups == part.groups);
    let mut g = 0;
    let mut same = true;
    let mut start = 0usize;
    let mut prefix_ok = true;
    let mut k = 0usize; // index into part.out
    while g < N {
        if g < full.groups {
            same &= full.keys[g] == part.keys[g] && full.lens[g] == part.lens[g];
            let take = if want[g] < full.lens[g] { want[g] } else { full.lens[g] };
            let mut j = 0;
            while j < N {
                if j < take {
                    prefix_ok &= k < part.out_n && k < N && start + j < N && part.out[k] == items[start + j] && part.out_group[k] == g;
                    k += 1;
                }
                j += 1;
            }
            start += full.lens[g];
        }
        g += 1;
    }
    chk!(s, "partial consumption does not change group keys or lengths", same);
    chk!(s, "a partially consumed group yields exactly its first items", prefix_ok && k == part.out_n);
    cov!(s, "a group skipped entirely while a later one is consumed", full.groups >= 2 && want[0] == 0 && want[1] > 0);
    cov!(s, "a group consumed partially", full.groups >= 1 && want[0] > 0 && want[0] < full.lens[0]);
}

harnesses! {
    #[kani::unwind(8)] c40_full;
    #[kani::unwind(8)] c40_full_any_size_hint; // timeout=900
    #[kani::unwind(8)] c40_partial;
}
