//! C32 — space descriptors encode and decode their heap range.
//!
//! Real code: `SpaceDescriptor::{create_descriptor_from_heap_range, get_start, get_extent,
//! is_contiguous, is_contiguous_hi, is_empty, create_descriptor, get_index}` with the VM layout
//! installed through the `verif_set_vm_layout` hook (symbolic heap bounds).

use crate::*;
use mmtk::util::heap::vm_layout::*;
use mmtk::util::Address;
use mmtk::verif_export::heap::SpaceDescriptor;

fn addr(a: usize) -> Address {
    unsafe { Address::from_usize(a) }
}

/// The 32-bit encoding (mantissa/exponent/size), also used for 64-bit compressed-pointer heaps:
/// every chunk-aligned range with start in (0, 2^32), 1..=1023 chunks.
pub fn c32_roundtrip_32(s: &mut Src) {
    let hs = s.any_usize();
    let he = s.any_usize();
    s.assume(hs & CHUNK_MASK == 0 && he & CHUNK_MASK == 0 && hs < he && he <= (1usize << 32));
    verif_set_vm_layout(VMLayout {
        log_address_space: 32,
        heap_start: addr(hs),
        heap_end: addr(he),
        log_space_extent: 31,
        force_use_contiguous_spaces: false,
    });
    let start = s.any_usize();
    let chunks = s.any_usize();
    s.assume(start != 0 && start & CHUNK_MASK == 0 && start < (1usize << 32));
    s.assume(chunks >= 1 && chunks < 1024);
    let end = start + (chunks << LOG_BYTES_IN_CHUNK);
    let d = SpaceDescriptor::create_descriptor_from_heap_range(addr(start), addr(end));
    chk!(s, "32-bit encoding: start round-trips", d.get_start().as_usize() == start);
    chk!(s, "32-bit encoding: extent round-trips", d.get_extent() == chunks << LOG_BYTES_IN_CHUNK);
    chk!(s, "32-bit encoding: descriptor is contiguous", d.is_contiguous());
    chk!(s, "32-bit encoding: top-of-heap flag iff end == heap_end", d.is_contiguous_hi() == (end == he));
    chk!(s, "32-bit encoding: descriptor is not the empty descriptor", !d.is_empty());
    // Injectivity: a second range with a different (start, chunks, top) gets a different descriptor.
    let start2 = s.any_usize();
    let chunks2 = s.any_usize();
    s.assume(start2 != 0 && start2 & CHUNK_MASK == 0 && start2 < (1usize << 32));
    s.assume(chunks2 >= 1 && chunks2 < 1024);
    let end2 = start2 + (chunks2 << LOG_BYTES_IN_CHUNK);
    let d2 = SpaceDescriptor::create_descriptor_from_heap_range(addr(start2), addr(end2));
    chk!(s, "32-bit encoding: equal descriptors only for equal ranges", (d == d2) == (start == start2 && chunks == chunks2 && (end == he) == (end2 == he)));
    cov!(s, "range at the top of the heap", end == he);
    cov!(s, "range not at the top of the heap", end != he);
    cov!(s, "start with a large exponent", start & ((1usize << 30) - 1) == 0);
    cov!(s, "start with the smallest exponent (odd chunk index)", (start >> LOG_BYTES_IN_CHUNK) & 1 == 1);
    cov!(s, "maximum chunk count", chunks == 1023);
}

/// The 64-bit contiguous-space encoding under the default 64-bit layout.
pub fn c32_roundtrip_64(s: &mut Src) {
    verif_set_vm_layout(VMLayout::new_64bit());
    let l = vm_layout();
    let idx = s.any_usize();
    s.assume(idx >= 1 && idx <= 16);
    let start = idx << l.log_space_extent;
    let chunks = s.any_usize();
    s.assume(chunks >= 1 && chunks <= (1usize << (l.log_space_extent - LOG_BYTES_IN_CHUNK)));
    let end = start + (chunks << LOG_BYTES_IN_CHUNK);
    let d = SpaceDescriptor::create_descriptor_from_heap_range(addr(start), addr(end));
    chk!(s, "64-bit encoding: start round-trips", d.get_start().as_usize() == start);
    chk!(s, "64-bit encoding: extent is the space extent and covers the range", d.get_extent() == 1usize << l.log_space_extent && d.get_extent() >= end - start);
    chk!(s, "64-bit encoding: contiguous", d.is_contiguous());
    chk!(s, "64-bit encoding: top-of-heap flag iff end == heap_end", d.is_contiguous_hi() == (end == l.heap_end.as_usize()));
    chk!(s, "64-bit encoding: index is the space index", d.get_index() == idx);
    chk!(s, "64-bit encoding: not empty", !d.is_empty());
    cov!(s, "top space", end == l.heap_end.as_usize());
    cov!(s, "first space", idx == 1);
}

/// Discontiguous descriptors: distinct, non-contiguous, non-empty, never equal to a contiguous one.
pub fn c32_discontiguous(s: &mut Src) {
    verif_set_vm_layout(VMLayout::new_32bit());
    let a = SpaceDescriptor::create_descriptor();
    let b = SpaceDescriptor::create_descriptor();
    let c = SpaceDescriptor::create_descriptor();
    chk!(s, "discontiguous descriptors are pairwise distinct", a != b && b != c && a != c);
    chk!(s, "discontiguous descriptors are not contiguous", !a.is_contiguous() && !b.is_contiguous() && !c.is_contiguous());
    chk!(s, "discontiguous descriptors are not contiguous-hi", !a.is_contiguous_hi() && !b.is_contiguous_hi() && !c.is_contiguous_hi());
    chk!(s, "discontiguous descriptors are not empty", !a.is_empty() && !b.is_empty() && !c.is_empty());
    let start = s.any_usize();
    let chunks = s.any_usize();
    s.assume(start != 0 && start & CHUNK_MASK == 0 && start < (1usize << 32));
    s.assume(chunks >= 1 && chunks < 1024);
    let d = SpaceDescriptor::create_descriptor_from_heap_range(addr(start), addr(start + (chunks << LOG_BYTES_IN_CHUNK)));
    chk!(s, "a discontiguous descriptor never equals a contiguous one", d != a && d != b && d != c);
    chk!(s, "the uninitialized descriptor is empty and not contiguous", SpaceDescriptor::UNINITIALIZED.is_empty() && !SpaceDescriptor::UNINITIALIZED.is_contiguous());
    cov!(s, "reached", chunks > 1);
}

harnesses! {
    #[kani::unwind(16)] c32_roundtrip_32;
    #[kani::unwind(2)] c32_roundtrip_64;
    #[kani::unwind(16)] c32_discontiguous;
}
