//! C21 — bulk side-metadata zero / set / copy touch exactly the covered regions.
//!
//! Real code: `SideMetadataSpec::{bzero_metadata, bset_metadata, bcopy_metadata_contiguous,
//! bulk_update_metadata, zero_meta_bits, set_meta_bits}`, `ranges::break_bit_range`,
//! `memory::{zero, set}`, `address_to_meta_address`, `meta_byte_lshift`.
//! Window: 48 real bytes; the destination table slice is bytes 0..24, the source table (bcopy)
//! is a second spec whose offset is 24 bytes larger, i.e. bytes 24..48 of the same window.
//! Oracle: bit `p` of the destination slice belongs to field `p >> log_bits`; fields inside
//! `[first, first+count)` become 0 / all-ones / the source field, every other bit is unchanged.

use crate::env::*;
use crate::*;
use mmtk::util::metadata::side_metadata::SideMetadataSpec;
use mmtk::util::Address;

pub const DATA_BASE: usize = 1 << 40;
const NBITS: usize = 192;

fn bit(w: &[u8; 48], p: usize) -> bool {
    (w[p >> 3] >> (p & 7)) & 1 != 0
}

/// kind: 0 = bzero, 1 = bset, 2 = bcopy
fn bulk(s: &mut Src, kind: u8, max_log_bits: usize) {
    let b = s.any_usize();
    let r = s.any_usize();
    s.assume(b <= max_log_bits && r <= 22);
    let offset = s.any_usize();
    s.assume(offset < (1usize << 40));
    let dst = spec(offset, b, r);
    let src = spec(offset + 24, b, r);
    let mut win = Win::<48>(s.any_bytes::<48>());
    win.install(&dst, DATA_BASE);
    let pre = win.0;
    let nfields = NBITS >> b;
    let first = s.any_usize();
    let count = s.any_usize();
    s.assume(first <= nfields && count <= nfields - first);
    let start = unsafe { Address::from_usize(DATA_BASE + (first << r)) };
    let size = count << r;
    match kind {
        0 => dst.bzero_metadata(start, size),
        1 => dst.bset_metadata(start, size),
        _ => dst.bcopy_metadata_contiguous(start, size, &src),
    }
    let post = win.0;
    let lo = first << b;
    let hi = (first + count) << b;
    let mut inside_ok = true;
    let mut outside_ok = true;
    let mut p = 0;
    while p < NBITS {
        let now = bit(&post, p);
        if p >= lo && p < hi {
            let want = match kind {
                0 => false,
                1 => true,
                _ => bit(&pre, NBITS + p),
            };
            inside_ok &= now == want;
        } else {
            outside_ok &= now == bit(&pre, p);
        }
        p += 1;
    }
    // the source table and everything else in the window is untouched
    let mut src_ok = true;
    let mut q = 24;
    while q < 48 {
        src_ok &= post[q] == pre[q];
        q += 1;
    }
    chk!(s, "every field inside the range has the bulk value", inside_ok);
    chk!(s, "every bit outside the range is unchanged", outside_ok);
    chk!(s, "memory after the destination slice is unchanged", src_ok);
    cov!(s, "empty range", count == 0);
    cov!(s, "range inside one metadata byte", count > 0 && lo >> 3 == (hi - 1) >> 3 && hi - lo < 8);
    cov!(s, "range with unaligned start and end spanning whole bytes", lo & 7 != 0 && hi & 7 != 0 && (hi >> 3) > (lo >> 3) + 1);
    cov!(s, "byte-aligned range", count > 0 && lo & 7 == 0 && hi & 7 == 0);
    cov!(s, "range ends at bit 0 of the byte after its start byte", lo & 7 != 0 && hi == ((lo >> 3) + 1) << 3);
    cov!(s, "range reaching the end of the window slice", hi == NBITS && count > 0);
}

pub fn c21_bzero(s: &mut Src) {
    bulk(s, 0, 2)
}
pub fn c21_bset(s: &mut Src) {
    bulk(s, 1, 2)
}
pub fn c21_bcopy(s: &mut Src) {
    bulk(s, 2, 2)
}

/// Byte-or-wider fields (8/16/32/64 bits): ranges are always whole bytes.
fn bulk_wide(s: &mut Src, kind: u8) {
    let b = s.any_usize();
    let r = s.any_usize();
    s.assume(b >= 3 && b <= 6 && r <= 22);
    let dst = spec(0, b, r);
    let src = spec(24, b, r);
    let mut win = Win::<48>(s.any_bytes::<48>());
    win.install(&dst, DATA_BASE);
    let pre = win.0;
    let nfields = NBITS >> b;
    let first = s.any_usize();
    let count = s.any_usize();
    s.assume(first <= nfields && count <= nfields - first);
    let start = unsafe { Address::from_usize(DATA_BASE + (first << r)) };
    match kind {
        0 => dst.bzero_metadata(start, count << r),
        1 => dst.bset_metadata(start, count << r),
        _ => dst.bcopy_metadata_contiguous(start, count << r, &src),
    }
    let post = win.0;
    let lo = (first << b) >> 3;
    let hi = ((first + count) << b) >> 3;
    let mut ok = true;
    let mut q = 0;
    while q < 48 {
        let want = if q >= lo && q < hi {
            match kind {
                0 => 0,
                1 => 0xff,
                _ => pre[24 + q],
            }
        } else {
            pre[q]
        };
        ok &= post[q] == want;
        q += 1;
    }
    chk!(s, "wide fields: exactly the covered bytes have the bulk value", ok);
    cov!(s, "64-bit fields", b == 6 && count > 0);
    cov!(s, "8-bit fields, odd byte count", b == 3 && count & 1 == 1);
}
pub fn c21_bzero_wide(s: &mut Src) {
    bulk_wide(s, 0)
}
pub fn c21_bset_wide(s: &mut Src) {
    bulk_wide(s, 1)
}
pub fn c21_bcopy_wide(s: &mut Src) {
    bulk_wide(s, 2)
}

harnesses! {
    #[kani::unwind(194)] c21_bzero;
    #[kani::unwind(194)] c21_bset;
    #[kani::unwind(194)] c21_bcopy;
    #[kani::unwind(50)] c21_bzero_wide;
    #[kani::unwind(50)] c21_bset_wide;
    #[kani::unwind(50)] c21_bcopy_wide;
}
