//! VMBinding instantiations used by the generic code under test (DESIGN.md §2.2, E6).
