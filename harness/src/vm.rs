//! VMBinding instantiations used by the generic code under test (DESIGN.md §2.2, E6).
//!
//! Every call-back is `unimplemented!()` except the `ObjectModel` ones the kernels need; those
//! read the harness tables below (set by the harness body before calling the code under test).

use mmtk::util::copy::{CopySemantics, GCWorkerCopyContext};
use mmtk::util::opaque_pointer::*;
use mmtk::util::{Address, ObjectReference};
use mmtk::vm::*;
use mmtk::Mutator;

/// Object table consulted by `get_current_size`: up to 4 (object address, size) pairs.
pub static mut OBJ_TABLE: [(usize, usize); 4] = [(0, 0); 4];
/// Address returned by `ObjectModel::copy` (C17) and number of calls made.
pub static mut COPY_RESULT: usize = 0;
pub static mut COPY_CALLS: usize = 0;
/// Counters for `Collection` call-backs (C10).
pub static mut OOM_CALLS: usize = 0;
pub static mut BLOCK_FOR_GC_CALLS: usize = 0;
/// Hook run inside `block_for_gc` (C10: stands for "a GC happened while blocked").
pub static mut BLOCK_FOR_GC_HOOK: Option<fn()> = None;

pub fn table_size(object: ObjectReference) -> usize {
    let a = object.to_raw_address().as_usize();
    unsafe {
        if OBJ_TABLE[0].0 == a {
            return OBJ_TABLE[0].1;
        }
        if OBJ_TABLE[1].0 == a {
            return OBJ_TABLE[1].1;
        }
        if OBJ_TABLE[2].0 == a {
            return OBJ_TABLE[2].1;
        }
        if OBJ_TABLE[3].0 == a {
            return OBJ_TABLE[3].1;
        }
    }
    // An object the harness did not declare: the smallest object.
    16
}

#[macro_export]
macro_rules! define_vm {
    ($vm:ident, $om:ident, min = $min:expr, max = $max:expr, fill = $fill:expr, ref_offset = $roff:expr,
     log = $log:expr, fwd_ptr = $fp:expr, fwd_bits = $fb:expr, mark = $mk:expr, pin = $pin:expr, los = $los:expr) => {
        #[derive(Default)]
        pub struct $vm;
        pub struct $om;
        impl VMBinding for $vm {
            type VMObjectModel = $om;
            type VMScanning = VMScanningImpl;
            type VMCollection = VMCollectionImpl;
            type VMActivePlan = VMActivePlanImpl;
            type VMReferenceGlue = VMReferenceGlueImpl;
            type VMSlot = mmtk::vm::slot::SimpleSlot;
            type VMMemorySlice = mmtk::vm::slot::UnimplementedMemorySlice;
            const ALIGNMENT_VALUE: u8 = $fill;
            const MIN_ALIGNMENT: usize = $min;
            const MAX_ALIGNMENT: usize = $max;
        }
        impl ObjectModel<$vm> for $om {
            const GLOBAL_LOG_BIT_SPEC: VMGlobalLogBitSpec = $log;
            const LOCAL_FORWARDING_POINTER_SPEC: VMLocalForwardingPointerSpec = $fp;
            const LOCAL_FORWARDING_BITS_SPEC: VMLocalForwardingBitsSpec = $fb;
            const LOCAL_MARK_BIT_SPEC: VMLocalMarkBitSpec = $mk;
            #[cfg(feature = "object_pinning")]
            const LOCAL_PINNING_BIT_SPEC: VMLocalPinningBitSpec = $pin;
            const LOCAL_LOS_MARK_NURSERY_SPEC: VMLocalLOSMarkNurserySpec = $los;
            const OBJECT_REF_OFFSET_LOWER_BOUND: isize = $roff as isize;
            fn copy(_from: ObjectReference, _semantics: CopySemantics, _ctx: &mut GCWorkerCopyContext<$vm>) -> ObjectReference {
                unsafe {
                    COPY_CALLS += 1;
                    ObjectReference::from_raw_address_unchecked(Address::from_usize(COPY_RESULT))
                }
            }
            fn copy_to(_from: ObjectReference, _to: ObjectReference, _region: Address) -> Address {
                unimplemented!()
            }
            fn get_current_size(object: ObjectReference) -> usize {
                table_size(object)
            }
            fn get_size_when_copied(object: ObjectReference) -> usize {
                table_size(object)
            }
            fn get_align_when_copied(_object: ObjectReference) -> usize {
                $min
            }
            fn get_align_offset_when_copied(_object: ObjectReference) -> usize {
                0
            }
            fn get_reference_when_copied_to(_from: ObjectReference, to: Address) -> ObjectReference {
                unsafe { ObjectReference::from_raw_address_unchecked(to + ($roff as usize)) }
            }
            fn get_type_descriptor(_reference: ObjectReference) -> &'static [i8] {
                unimplemented!()
            }
            fn ref_to_object_start(object: ObjectReference) -> Address {
                object.to_raw_address().sub($roff as usize)
            }
            fn ref_to_header(object: ObjectReference) -> Address {
                object.to_raw_address()
            }
            fn dump_object(_object: ObjectReference) {}
        }
        impl Scanning<$vm> for VMScanningImpl {
            fn scan_roots_in_mutator_thread(_tls: VMWorkerThread, _mutator: &'static mut Mutator<$vm>, _factory: impl RootsWorkFactory<mmtk::vm::slot::SimpleSlot>) {
                unimplemented!()
            }
            fn scan_vm_specific_roots(_tls: VMWorkerThread, _factory: impl RootsWorkFactory<mmtk::vm::slot::SimpleSlot>) {
                unimplemented!()
            }
            fn scan_object<SV: SlotVisitor<mmtk::vm::slot::SimpleSlot>>(_tls: VMWorkerThread, _object: ObjectReference, _slot_visitor: &mut SV) {
                unimplemented!()
            }
            fn notify_initial_thread_scan_complete(_partial_scan: bool, _tls: VMWorkerThread) {
                unimplemented!()
            }
            fn supports_return_barrier() -> bool {
                unimplemented!()
            }
            fn prepare_for_roots_re_scanning() {
                unimplemented!()
            }
        }
        impl Collection<$vm> for VMCollectionImpl {
            fn stop_all_mutators<F>(_tls: VMWorkerThread, _mutator_visitor: F)
            where
                F: FnMut(&'static mut Mutator<$vm>),
            {
                unimplemented!()
            }
            fn resume_mutators(_tls: VMWorkerThread) {
                unimplemented!()
            }
            fn block_for_gc(_tls: VMMutatorThread) {
                unsafe {
                    BLOCK_FOR_GC_CALLS += 1;
                    if let Some(f) = BLOCK_FOR_GC_HOOK {
                        f()
                    }
                }
            }
            fn spawn_gc_thread(_tls: VMThread, _ctx: GCThreadContext<$vm>) {
                unimplemented!()
            }
            fn out_of_memory(_tls: VMThread, _err_kind: mmtk::util::alloc::AllocationError) {
                unsafe {
                    OOM_CALLS += 1;
                }
            }
        }
        impl ActivePlan<$vm> for VMActivePlanImpl {
            fn number_of_mutators() -> usize {
                unimplemented!()
            }
            fn is_mutator(_tls: VMThread) -> bool {
                true
            }
            fn mutator(_tls: VMMutatorThread) -> &'static mut Mutator<$vm> {
                unimplemented!()
            }
            fn mutators<'a>() -> Box<dyn Iterator<Item = &'a mut Mutator<$vm>> + 'a> {
                unimplemented!()
            }
        }
        impl ReferenceGlue<$vm> for VMReferenceGlueImpl {
            type FinalizableType = ObjectReference;
            fn set_referent(_reference: ObjectReference, _referent: ObjectReference) {
                unimplemented!()
            }
            fn get_referent(_object: ObjectReference) -> Option<ObjectReference> {
                unimplemented!()
            }
            fn clear_referent(_object: ObjectReference) {
                unimplemented!()
            }
            fn enqueue_references(_references: &[ObjectReference], _tls: VMWorkerThread) {
                unimplemented!()
            }
        }
    };
}

pub struct VMScanningImpl;
pub struct VMCollectionImpl;
pub struct VMActivePlanImpl;
pub struct VMReferenceGlueImpl;

// All metadata on the side (the common production layout).
const SIDE_FB: VMLocalForwardingBitsSpec = VMLocalForwardingBitsSpec::side_first();
const SIDE_MK: VMLocalMarkBitSpec = VMLocalMarkBitSpec::side_after(SIDE_FB.as_spec());
const SIDE_PIN: VMLocalPinningBitSpec = VMLocalPinningBitSpec::side_after(SIDE_MK.as_spec());
const SIDE_LOS: VMLocalLOSMarkNurserySpec = VMLocalLOSMarkNurserySpec::side_after(SIDE_PIN.as_spec());

// VmA: MIN 8 / MAX 8 (no extra alignment ever), no gap filling, object ref == object start.
define_vm!(VmA, OmA, min = 8, max = 8, fill = 0, ref_offset = 0,
    log = VMGlobalLogBitSpec::side_first(),
    fwd_ptr = VMLocalForwardingPointerSpec::in_header(0),
    fwd_bits = SIDE_FB, mark = SIDE_MK, pin = SIDE_PIN, los = SIDE_LOS);

// VmB: MIN 4 / MAX 64, gap filling with 0xab, object ref 8 bytes after object start.
define_vm!(VmB, OmB, min = 4, max = 64, fill = 0xab, ref_offset = 8,
    log = VMGlobalLogBitSpec::side_first(),
    fwd_ptr = VMLocalForwardingPointerSpec::in_header(0),
    fwd_bits = SIDE_FB, mark = SIDE_MK, pin = SIDE_PIN, los = SIDE_LOS);

// VmC: MIN 8 / MAX 4096, no gap filling.
define_vm!(VmC, OmC, min = 8, max = 4096, fill = 0, ref_offset = 0,
    log = VMGlobalLogBitSpec::side_first(),
    fwd_ptr = VMLocalForwardingPointerSpec::in_header(0),
    fwd_bits = SIDE_FB, mark = SIDE_MK, pin = SIDE_PIN, los = SIDE_LOS);

// VmH: every per-object spec in the header word (bits 0-1 forwarding bits shared with the
// forwarding pointer word, mark bit 2, pin bit 3, LOS 2 bits 4-5, log bit 6).
define_vm!(VmH, OmH, min = 8, max = 8, fill = 0, ref_offset = 0,
    log = VMGlobalLogBitSpec::in_header(6),
    fwd_ptr = VMLocalForwardingPointerSpec::in_header(0),
    fwd_bits = VMLocalForwardingBitsSpec::in_header(0),
    mark = VMLocalMarkBitSpec::in_header(2),
    pin = VMLocalPinningBitSpec::in_header(3),
    los = VMLocalLOSMarkNurserySpec::in_header(4));

// VmI: forwarding bits in a header byte *separate* from the forwarding pointer word
// (bits at -8..-6, i.e. the byte before the header address), mark bit next to them.
define_vm!(VmI, OmI, min = 8, max = 8, fill = 0, ref_offset = 0,
    log = VMGlobalLogBitSpec::side_first(),
    fwd_ptr = VMLocalForwardingPointerSpec::in_header(0),
    fwd_bits = VMLocalForwardingBitsSpec::in_header(-8),
    mark = VMLocalMarkBitSpec::in_header(-6),
    pin = VMLocalPinningBitSpec::in_header(-5),
    los = VMLocalLOSMarkNurserySpec::in_header(-4));

// VmJ: forwarding bits at header bits 1..=2 of the forwarding-pointer word (shift 1: 8-byte aligned
// references leave bits 0..=2 free), mark bit at bit 0.
define_vm!(VmJ, OmJ, min = 8, max = 8, fill = 0, ref_offset = 0,
    log = VMGlobalLogBitSpec::side_first(),
    fwd_ptr = VMLocalForwardingPointerSpec::in_header(0),
    fwd_bits = VMLocalForwardingBitsSpec::in_header(1),
    mark = VMLocalMarkBitSpec::in_header(0),
    pin = VMLocalPinningBitSpec::in_header(-5),
    los = VMLocalLOSMarkNurserySpec::in_header(-4));

// VmD: MIN 16 / MAX 256, gap filling with 0xcd.
define_vm!(VmD, OmD, min = 16, max = 256, fill = 0xcd, ref_offset = 0,
    log = VMGlobalLogBitSpec::side_first(),
    fwd_ptr = VMLocalForwardingPointerSpec::in_header(0),
    fwd_bits = SIDE_FB, mark = SIDE_MK, pin = SIDE_PIN, los = SIDE_LOS);
