//! C17 — concurrent forwarding copies an object once and all tracers agree (rely/guarantee step).
//!
//! Real code: `attempt_to_forward`, `spin_and_get_forwarded_object`, `forward_object`,
//! `get_forwarding_status`, `read_forwarding_pointer`, `write_forwarding_pointer` with the real
//! `MetadataSpec`/`HeaderMetadataSpec`/`SideMetadataSpec` accessors underneath.
//! Kani has no threads.  The interleaving quantifier is encoded as *symbolic interference*: hook
//! H9 runs `env_step` before every atomic access the protocol makes; the step may change the
//! object's forwarding state in any way another tracer running the same protocol could (the
//! **rely** relation R):  00 -> 10 (another tracer wins the CAS);  10 -> 11 together with a
//! forwarding pointer (that tracer publishes);  10 -> 00 (that tracer declines and clears, the
//! Immix interleaving of issue #579);  never a change of 11, never a change while *this* thread
//! holds 10.  Placement and choice of every step are solver variables.
//! Bounds: the other tracers win at most twice, and a tracer that holds 10 finishes within 2
//! further steps (progress assumption for spinners); sequentially consistent atomics.

use crate::env::*;
use crate::vm::*;
use crate::*;
use mmtk::util::copy::{CopySemantics, GCWorkerCopyContext};
use mmtk::util::{Address, ObjectReference};
use mmtk::verif_export::protocols::*;
use mmtk::vm::{ObjectModel, VMBinding};

const PTR_MASK: u64 = 0x00ff_ffff_ffff_fff8;

#[repr(C, align(64))]
pub struct Obj(pub [u8; 64]);

/// Where the forwarding bits and pointer of the object live (raw, bypassing the hooks).
#[derive(Clone, Copy)]
pub struct Loc {
    bits_byte: *mut u8,
    bits_shift: u8,
    ptr_word: *mut u64,
    /// bits are the low bits of the pointer word (one atomic word carries both)
    shared: bool,
}

pub struct Env {
    src: *mut Src,
    loc: Loc,
    active: bool,
    self_holds: bool,
    other_holds: bool,
    other_wins_left: u8,
    patience: u8,
    other_published: bool,
    other_ptr: u64,
    steps: u8,
}

pub static mut ENV: Option<Env> = None;

fn bits(l: &Loc) -> u8 {
    unsafe { (*l.bits_byte >> l.bits_shift) & 3 }
}
fn set_bits(l: &Loc, v: u8) {
    unsafe { *l.bits_byte = (*l.bits_byte & !(3 << l.bits_shift)) | (v << l.bits_shift) }
}

fn env_step(_a: Address) {
    let e = match unsafe { ENV.as_mut() } {
        Some(e) => e,
        None => return,
    };
    if !e.active || e.self_holds {
        return;
    }
    let s = unsafe { &mut *e.src };
    if e.other_holds {
        let act = e.patience == 0 || s.any_bool();
        if act {
            if s.any_bool() {
                // publish: forwarding pointer first, then the FORWARDED state (one word if shared)
                unsafe {
                    if e.loc.shared {
                        *e.loc.ptr_word = e.other_ptr | (3 << e.loc.bits_shift);
                    } else {
                        *e.loc.ptr_word = (*e.loc.ptr_word & !PTR_MASK) | e.other_ptr;
                        set_bits(&e.loc, 0b11);
                    }
                }
                e.other_published = true;
            } else {
                set_bits(&e.loc, 0b00);
            }
            e.other_holds = false;
            e.steps += 1;
        } else {
            e.patience -= 1;
        }
        return;
    }
    if bits(&e.loc) == 0b00 && e.other_wins_left > 0 && s.any_bool() {
        set_bits(&e.loc, 0b10);
        e.other_holds = true;
        e.other_wins_left -= 1;
        e.patience = unsafe { PATIENCE };
        e.steps += 1;
    }
}

pub static mut WINS: u8 = 2;
pub static mut PATIENCE: u8 = 2;

fn scenario<VM: VMBinding>(s: &mut Src, obj_addr: usize, loc: Loc) {
    let obj = unsafe { ObjectReference::from_raw_address_unchecked(Address::from_usize(obj_addr)) };
    // arbitrary initial forwarding state
    let init = s.any_u8();
    s.assume(init == 0b00 || init == 0b10 || init == 0b11);
    let p_init = s.any_u64();
    let p_other = s.any_u64();
    let p_copy = s.any_u64();
    // object addresses: non-null, word aligned, inside the 56-bit range the forwarding word can hold
    s.assume(p_init & !PTR_MASK == 0 && p_init != 0 && p_other & !PTR_MASK == 0 && p_other != 0 && p_copy & !PTR_MASK == 0 && p_copy != 0);
    s.assume(p_init != p_other && p_other != p_copy && p_init != p_copy && p_copy != obj_addr as u64 && p_other != obj_addr as u64);
    unsafe {
        if init == 0b11 {
            *loc.ptr_word = (*loc.ptr_word & !PTR_MASK) | p_init;
        }
        set_bits(&loc, init);
        COPY_RESULT = p_copy as usize;
        COPY_CALLS = 0;
        ENV = Some(Env { src: s as *mut Src, loc, active: true, self_holds: false, other_holds: init == 0b10, other_wins_left: WINS, patience: PATIENCE, other_published: false, other_ptr: p_other, steps: 0 });
        verif_env::STEP = Some(env_step);
    }
    // header bits of the pointer word that belong to neither the forwarding pointer nor the
    // forwarding bits (other specs may live there when the two are written separately)
    let other_bits_mask: u64 = !PTR_MASK & !(if loc.shared { 3u64 << loc.bits_shift } else { 0 });
    let other_bits_before = unsafe { *loc.ptr_word } & other_bits_mask;
    let st = attempt_to_forward::<VM>(obj);
    let env = || unsafe { ENV.as_mut().unwrap() };
    if st == 0b00 {
        // this thread won: its own CAS moved the state 00 -> 10 in memory
        env().self_holds = true;
        chk!(s, "the winner's CAS left BEING_FORWARDED in memory", bits(&loc) == 0b10);
        chk!(s, "no other tracer has published a copy when this thread wins", !env().other_published);
        let mut ctx = core::mem::MaybeUninit::<GCWorkerCopyContext<VM>>::uninit();
        let new = forward_object::<VM>(obj, CopySemantics::DefaultCopy, unsafe { &mut *ctx.as_mut_ptr() }, |_| {});
        env().self_holds = false;
        chk!(s, "the winner copies the object exactly once", unsafe { COPY_CALLS } == 1);
        chk!(s, "forward_object returns the new copy", new.to_raw_address().as_usize() as u64 == p_copy);
        chk!(s, "after forwarding the state is FORWARDED", bits(&loc) == 0b11);
        env().active = false;
        chk!(s, "the published forwarding pointer is the new copy", read_forwarding_pointer::<VM>(obj).to_raw_address().as_usize() as u64 == p_copy);
        if !loc.shared {
            chk!(s, "writing the forwarding pointer leaves the other bits of that header word alone", unsafe { *loc.ptr_word } & other_bits_mask == other_bits_before);
        }
        // a late tracer now agrees with the winner
        let st2 = attempt_to_forward::<VM>(obj);
        chk!(s, "a later attempt sees FORWARDED", st2 == 0b11);
        chk!(s, "a later tracer gets the winner's copy", spin_and_get_forwarded_object::<VM>(obj, st2).to_raw_address().as_usize() as u64 == p_copy);
        cov!(s, "this thread won after another tracer declined", env().steps >= 2);
        cov!(s, "this thread won at once", env().steps == 0);
    } else {
        // this thread lost: it must not copy, and must return what the winner published
        let r = spin_and_get_forwarded_object::<VM>(obj, st).to_raw_address().as_usize() as u64;
        chk!(s, "a thread that did not win never copies", unsafe { COPY_CALLS } == 0);
        let fin = bits(&loc);
        let mem_ptr = unsafe { *loc.ptr_word } & PTR_MASK;
        if env().other_published {
            chk!(s, "the loser returns the pointer the winner published", r == p_other && fin == 0b11 && mem_ptr == p_other);
        } else if init == 0b11 {
            chk!(s, "an already forwarded object resolves to its forwarding pointer", r == p_init && fin == 0b11);
        } else {
            chk!(s, "if the winner declined and cleared, the loser returns the original object", r == obj_addr as u64);
        }
        chk!(s, "the loser never returns while the state it relies on is BEING_FORWARDED", fin != 0b10 || env().other_holds);
        cov!(s, "lost the CAS race (state changed between load and CAS)", init == 0b00);
        cov!(s, "spun until the winner published", init != 0b11 && env().other_published);
        cov!(s, "winner cleared the forwarding bits", !env().other_published && init != 0b11);
    }
    unsafe {
        verif_env::STEP = None;
    }
}

/// Forwarding bits are the low two bits of the in-header forwarding word (one atomic word).
pub fn c17_shared_header_word(s: &mut Src) {
    let mut o = Obj(s.any_bytes::<64>());
    let base = o.0.as_mut_ptr();
    let loc = Loc { bits_byte: unsafe { base.add(8) }, bits_shift: 0, ptr_word: unsafe { base.add(8) as *mut u64 }, shared: true };
    scenario::<VmH>(s, base as usize + 8, loc);
}

/// Forwarding bits at bits 1..=2 of the in-header forwarding word (shift 1).
pub fn c17_shared_header_word_shift1(s: &mut Src) {
    let mut o = Obj(s.any_bytes::<64>());
    let base = o.0.as_mut_ptr();
    let loc = Loc { bits_byte: unsafe { base.add(8) }, bits_shift: 1, ptr_word: unsafe { base.add(8) as *mut u64 }, shared: true };
    scenario::<VmJ>(s, base as usize + 8, loc);
}

/// Forwarding bits in a separate header byte (bit offset -8), pointer in the header word.
pub fn c17_separate_header_byte(s: &mut Src) {
    let mut o = Obj(s.any_bytes::<64>());
    let base = o.0.as_mut_ptr();
    let loc = Loc { bits_byte: unsafe { base.add(7) }, bits_shift: 0, ptr_word: unsafe { base.add(8) as *mut u64 }, shared: false };
    scenario::<VmI>(s, base as usize + 8, loc);
}

/// Forwarding bits on the side (2 bits per 8 bytes, shared byte with three other objects),
/// pointer in the header word.
pub fn c17_side_bits(s: &mut Src) {
    let mut o = Obj(s.any_bytes::<64>());
    let base = o.0.as_mut_ptr();
    let mut win = Win::<16>(s.any_bytes::<16>());
    let spec = match *<VmA as VMBinding>::VMObjectModel::LOCAL_FORWARDING_BITS_SPEC.as_spec() {
        mmtk::util::metadata::MetadataSpec::OnSide(sp) => sp,
        _ => unreachable!(),
    };
    win.install(&spec, base as usize);
    // object at base + 8: region index 1 -> bits 2..3 of the first window byte
    let loc = Loc { bits_byte: win.0.as_mut_ptr(), bits_shift: 2, ptr_word: unsafe { base.add(8) as *mut u64 }, shared: false };
    scenario::<VmA>(s, base as usize + 8, loc);
}

/// Thorough tier: larger interference budget (other tracers win up to 3 times, 3 steps of patience).
pub fn c17_shared_header_word_deep(s: &mut Src) {
    unsafe {
        WINS = 3;
        PATIENCE = 3;
    }
    c17_shared_header_word(s)
}
pub fn c17_side_bits_deep(s: &mut Src) {
    unsafe {
        WINS = 3;
        PATIENCE = 3;
    }
    c17_side_bits(s)
}

harnesses! {
    #[kani::unwind(8)] #[kani::stub(alloc::fmt::format, crate::env::stub_format)] c17_shared_header_word; // timeout=900
    #[kani::unwind(8)] #[kani::stub(alloc::fmt::format, crate::env::stub_format)] c17_shared_header_word_shift1; // timeout=900
    #[kani::unwind(8)] #[kani::stub(alloc::fmt::format, crate::env::stub_format)] c17_separate_header_byte; // timeout=900
    #[kani::unwind(8)] #[kani::stub(alloc::fmt::format, crate::env::stub_format)] c17_side_bits; // timeout=900
    #[kani::unwind(12)] #[kani::stub(alloc::fmt::format, crate::env::stub_format)] c17_shared_header_word_deep; // tier=thorough timeout=1800
    #[kani::unwind(12)] #[kani::stub(alloc::fmt::format, crate::env::stub_format)] c17_side_bits_deep; // tier=thorough timeout=1800
}
