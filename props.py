"""Per-property metadata used by ./check for MANIFEST.json and the evidence files.
The harnesses themselves are discovered from harness/src/cNN_*.rs."""

HOOKS = {
    "guard": "--cfg mmtk_verif",
    "enable": "RUSTFLAGS='--cfg mmtk_verif' (set by /verif/check for cargo kani and for the native replayer); all hooks are add-only re-exports/constructors/accessors under #[cfg(mmtk_verif)]",
    "baseline_off_cmd": "cd /repo && cargo test --workspace --no-fail-fast --offline",
    "source_commits": ["6f482cd", "6074715", "0599ef3"],
    "add_only": True,
}

NOTES = ("Technique: solver-based checking of the real code. Every claimed property is decided by Kani/CBMC harnesses that "
         "symbolically execute the compiled mmtk-core functions; bounds and everything outside them are stated per property in "
         "DESIGN.md (section 8 = as built) and in each evidence file. Exit 2 = inconclusive (never reported as held). Known findings / fixed defects: "
         "/verif/known_findings.json (read-only at run time; 'findings' entries print KNOWN-FINDING and suppress exactly one (harness, check) pair; 'fixed' entries suppress nothing). "
         "Open known findings: F10, F11 (C08, large-object interior-pointer search). Repaired in /repo by 'fix:' commits: b72becc (C23), abe3802 (C25), 88d4fc9 (C31), "
         "f1311e4 (C18), 59952fd (C22), 64d8575 and 0c90b94 (C27), 79a071a (C22), 1c7db0d and 5e7e5b8 (C10); see DESIGN.md section 8.3.")

COMMON_ASSUME = [
    "x86-64 Linux, 64-bit layout; dev-profile semantics under Kani (debug assertions and overflow checks on)",
    "sequentially consistent single-thread execution of atomics",
    "trusted: Kani 0.68, CBMC 6.11, cadical, rustc, harness oracles",
]

PROPS = {}

PROPS["C23"] = {
    "enc": ["HeaderMetadataSpec::load", "load_atomic", "store", "store_atomic", "compare_exchange", "fetch_add", "fetch_sub",
            "fetch_and", "fetch_or", "fetch_update", "get_shift_and_mask_for_bits", "get_bits_from_u8", "set_bits_to_u8",
            "MetadataValue impls for u8/u16/u32/u64/usize", "Address::{load,store,atomic_load,compare_exchange,as_ref}"],
    "sym": "bit_offset in [-64,64); num_of_bits 1..=7 not straddling a byte, or the width of T in {u8,u16,u32,u64,usize} naturally aligned; "
           "optional mask (any value) for byte-or-wider load/store/CAS; operand/old/new values; all 24 bytes of a 3-word header buffer",
    "bound": "One operation from an arbitrary header state (inductive step; the oracle is a full frame condition over all 24 bytes, "
             "so histories follow by induction). Real buffer, no stubs.",
    "outside": "bit offsets outside [-64,64); concurrent interleavings (see C18)",
    "assumptions": COMMON_ASSUME + ["spec satisfies the code's own assert_spec preconditions", "values fit the field width", "masked CAS: old/new lie inside the mask"],
    "level_text": "Bounded symbolic execution (Kani/CBMC) of every HeaderMetadataSpec accessor over all bit offsets in [-64,64), all widths, all header contents and operand values: returned value and full 24-byte frame compared against a bit-string reference model. Within that bound the verdict covers every input; not a proof beyond it.",
    "level_note": "Trusted: Kani/CBMC/cadical, the 20-line bit-string reference model; single-threaded semantics of the atomics.",
}

PROPS["C33"] = {
    "enc": ["align_allocation", "align_allocation_no_fill", "align_allocation_inner", "fill_alignment_gap", "get_maximum_aligned_size",
            "get_maximum_aligned_size_inner", "raw_align_up", "raw_align_down", "raw_is_aligned", "rshift_align_up", "bytes_to_pages_up",
            "pages_to_bytes", "bytes_to_chunks_up", "chunk_align_up", "chunk_align_down", "page_align_down", "is_page_aligned",
            "address_to_chunk_index", "chunk_index_to_address", "Address::{align_up,align_down,is_aligned_to}"],
    "sym": "full 64-bit region/val/num/bytes; alignment = 1<<k with k symbolic in [log MIN_ALIGNMENT, log MAX_ALIGNMENT] (0..=63 for the raw helpers); "
           "known_alignment = 1<<k in [MIN, 4096]; offset any multiple of the known alignment below 2^63; shift bits 0..=63; "
           "fill variant: region at any 4-byte step of a real 192-byte buffer",
    "bound": "Loop-free code at full width: no bound on values. Instantiations VmA (MIN 8/MAX 8), VmB (MIN 4/MAX 64, fill 0xab), VmC (MIN 8/MAX 4096); thorough adds VmD (MIN 16/MAX 256). "
             "Gap filling is checked on a 192-byte buffer (gaps up to 63 bytes = every gap VmB can produce).",
    "outside": "inputs whose result would overflow usize (the property excludes them); offset >= 2^63 (its negation as isize overflows in the dev profile); other VM alignment constants",
    "assumptions": COMMON_ASSUME + ["alignment is a power of two within the VM's [MIN_ALIGNMENT, MAX_ALIGNMENT]", "region and offset are multiples of the known alignment (the function's debug assertions / meaning of known_alignment)",
                                    "region <= usize::MAX - MAX_ALIGNMENT and region + gap does not cross 2^63 (Address + isize is signed, overflow-checked arithmetic), val + align - 1 does not overflow, offset < 2^63"],
    "level_text": "Bounded symbolic execution (Kani/CBMC) of the alignment and rounding functions at full 64-bit width with symbolic power-of-two alignments: results compared with the arithmetic specification (multiple-of, least/greatest, gap < alignment, gap + size <= get_maximum_aligned_size), gap filling compared byte by byte on a real buffer. Loop-free code, so within the stated preconditions the verdict covers every input for the three VM instantiations.",
    "level_note": "Trusted: Kani/CBMC/cadical and the mask-form arithmetic oracles; VM constants limited to the three instantiations.",
}

PROPS["C32"] = {
    "enc": ["SpaceDescriptor::create_descriptor_from_heap_range", "get_start", "get_start_32", "get_extent", "get_extent_32", "is_contiguous",
            "is_contiguous_hi", "is_empty", "get_index", "create_descriptor", "vm_layout (layout installed by the verif_set_vm_layout hook, validated by VMLayout::validate)"],
    "sym": "32-bit encoding: heap_start < heap_end <= 2^32 chunk-aligned, start chunk-aligned in (0, 2^32), chunks 1..=1023, a second independent range for injectivity; "
           "64-bit encoding: space index 1..=16, chunk count up to the space extent; three successive discontiguous descriptors",
    "bound": "All (start, chunk count) pairs the 32-bit encoding admits (mantissa loop <= 14 iterations, unwind 16 with unwinding assertion); default 64-bit layout for the contiguous encoding; 3 create_descriptor calls from the initial counter.",
    "outside": "start >= 2^32 in the 32-bit encoding (the FIXME in the source says the encoding does not cover it); discontiguous counter values beyond the first three",
    "assumptions": COMMON_ASSUME + ["layout satisfies VMLayout::validate", "start non-zero and chunk aligned, 0 < chunks < 1024 (the function's debug assertion)"],
    "level_text": "Bounded symbolic execution (Kani/CBMC) of the real SpaceDescriptor encode/decode functions over every chunk-aligned (start, chunk count) the 32-bit encoding admits, with symbolic heap bounds: start, extent, contiguity and top-of-heap flag round-trip, and distinct ranges get distinct descriptors; 64-bit contiguous encoding over all 16 space indices; discontiguous descriptors distinct and non-contiguous.",
    "level_note": "Trusted: Kani/CBMC/cadical; the verif_set_vm_layout hook installs the layout (validated by the real validate()).",
}

PROPS["C25"] = {
    "enc": ["sanity::verify_no_overlap_contiguous", "sanity::verify_global_specs", "sanity::verify_global_specs_total_size", "metadata_address_range_size",
            "log_data_meta_ratio", "SideMetadataSpec::get_starting_address", "global_side_metadata_base_address (OnceLock set by the verif hook)"],
    "sym": "runtime base address < 2^46; per spec: offset < 2^46, log_num_of_bits 0..=6, log_bytes_in_region 0..=22 with data:metadata ratio >= 2; pairs, and 3-element sets for verify_global_specs",
    "bound": "All pairs of specs in those ranges (loop-free predicate); sets of 3 specs for the set-level check (the checker is pairwise, so larger sets repeat the same predicate).",
    "outside": "the HashSet de-duplication in get_all_specs (local-spec path; hashbrown does not encode, DESIGN P10) - the pairwise predicate it feeds is the same function; 32-bit chunked predicate (not compiled on this target)",
    "assumptions": COMMON_ASSUME + ["alloc::fmt::format stubbed to return an empty String (error message text not observed)", "hook leaks the io::Error instead of dropping it",
                                    "offset and base below 2^46, metadata at most half the size of the data it describes (the layout's worst-case-ratio precondition)"],
    "level_text": "Bounded symbolic execution (Kani/CBMC) of the real overlap predicate and set-level check over every pair (and 3-element set) of specs with symbolic offset, width, region size and runtime base: accepted iff the address intervals [start, start+range_size) are pairwise disjoint (two obligations: no false accept, no false reject).",
    "level_note": "Trusted: Kani/CBMC/cadical, the interval-overlap oracle. Found and repaired F2 (repo abe3802).",
}

PROPS["C40"] = {
    "enc": ["RevisitableGroupByForIterator::revisitable_group_by", "RevisitableGroupBy::next", "RevisitableGroup::next",
            "instantiated with I = Copied<slice::Iter<u8>>, K = u8, driven by the verif_group_by hook"],
    "sym": "6 item bytes (item value = low 2 bits), length 0..=6, a symbolic 4-entry key table (= every key function over a 4-value item domain), per-group consumption counts 0..=7",
    "bound": "Sequences of length <= 6 over 4 item values with keys in u8; unwind 8 with unwinding assertions.",
    "outside": "longer sequences, other iterator/key types (the code is generic and does not inspect them)",
    "assumptions": COMMON_ASSUME + ["the key function is pure (a table lookup)"],
    "level_text": "Bounded symbolic execution (Kani/CBMC) of the real group-by iterators over every input sequence of length <= 6 and every key function on a 4-value domain: groups concatenate to the input in order, are non-empty, share the reported key, adjacent keys differ, reported length equals item count; partially or not consumed groups do not disturb the outer iterator.",
    "level_note": "Trusted: Kani/CBMC/cadical and the recording closures of the harness.",
}

PROPS["C37"] = {
    "enc": ["ForwardingMetadata::new", "mark_last_word_of_object", "calculate_offset_vector", "forward", "Transducer::{new,visit_mark_bit,encode,decode}",
            "RegionIterator<Block>", "Block/CompressorRegion::{from_aligned_address,from_unaligned_address,start,end}", "SideMetadataSpec::{fetch_or_atomic,store_atomic,load_atomic,load}",
            "address_to_meta_address", "meta_byte_lshift/mask", "are_different_metadata_bits"],
    "sym": "start word and size (>= 2 words) of up to two live objects in the first two 512-byte offset-vector blocks of a region (128 words; either object may straddle the block boundary), whether the second object exists, "
           "the queried address (each object start; any word-aligned address not strictly inside a live object); handoff harness: every transducer state (to, last bit, in-object flag), block start and next mark bit below 2^47",
    "bound": "Region prefix of two blocks (cursor = 1 KiB), <= 2 live objects; mark bitmap 16 bytes and offset vector 2 words in E2 windows. The bit scan `SideMetadataSpec::scan_non_zero_values` is REPLACED (Kani stub) by a word-by-word reference scan that reads each bit with the real "
             "`SideMetadataSpec::load` and calls the real closure; that the real scan visits exactly the non-zero regions in ascending order is what C22's scan harnesses decide (composition). Natively (replay) nothing is stubbed. One `forward` call per harness; unwinding assertions on (reference scan 66, others 4).",
    "outside": "more than two blocks / two objects (the block-to-block hand-off is decided for every state by c37_transducer_handoff, and for the real calculate/forward pair across the one boundary); regions longer than 1 KiB; the real word/byte-at-a-time scan inside this composition (C22); "
               "CompressorSpace itself (marking during tracing, the copy loop), `scan_marked_objects`; objects of one word (excluded by the property)",
    "assumptions": COMMON_ASSUME + ["E2: metadata loads/stores redirected to two typed windows", "scan_non_zero_values = reference scan (see bound; discharged by C22 for 1-bit specs on 3- and 9-byte bitmaps)", "objects do not overlap, are >= 2 words, lie inside the two blocks"],
    "level_text": "Bounded symbolic execution (Kani/CBMC) of the real Compressor forwarding code (mark_last_word_of_object, calculate_offset_vector, forward, the Transducer) on the first two offset-vector blocks of a region for every placement and size of up to two live objects, including objects straddling the block boundary: "
                  "forward(first object) = region start, forward(second) = region start + size of the first (hence order-preserving, non-overlapping, never above the original address), and any address outside live objects is forwarded past exactly the live bytes below it; "
                  "plus, for every transducer state, that decode(encode(state)) at a block start continues exactly like the state itself. The mark-bit scan is a reference implementation composed with C22.",
    "level_note": "Trusted: Kani/CBMC/cadical, the reference scan (12 lines) standing for scan_non_zero_values under Kani, the E2 window stubs. Quick tier: hand-off algebra + forward of the first and second object; thorough adds the arbitrary-address query (about 30 min).",
}

PROPS["C20"] = {
    "enc": ["SideMetadataSpec::load", "store", "load_atomic", "store_atomic", "set_zero", "set_zero_atomic", "compare_exchange_atomic", "fetch_add_atomic",
            "fetch_sub_atomic", "fetch_and_atomic", "fetch_or_atomic", "fetch_update_atomic", "fetch_ops_on_bits", "side_metadata_access", "assert_value_type",
            "address_to_meta_address", "address_to_contiguous_meta_address", "meta_byte_lshift", "meta_byte_mask", "MetadataValue impls", "Address::{load,store,atomic_load,compare_exchange}", "std atomics"],
    "sym": "log_num_of_bits 0..=6 (sub-byte widths symbolic inside one harness, one harness per wider type), log_bytes_in_region 0..=22 symbolic, spec offset < 2^40, "
           "all 16 bytes of the metadata window, region index anywhere in the window, byte offset inside the region, operation kind (13 kinds), operands / CAS old+new; two consecutive operations on independently chosen regions",
    "bound": "Metadata window of 16 bytes (128 one-bit fields ... 2 64-bit fields); histories of 2 operations from an arbitrary window state (the frame oracle makes one step inductive; two steps exercise neighbour interference directly); 64-bit contiguous layout.",
    "outside": "the 32-bit chunked layout (helpers_32.rs, not compiled); concurrent interleavings (C18); windows longer than 16 bytes (address arithmetic is shift-only and identical beyond)",
    "assumptions": COMMON_ASSUME + ["E1: side-metadata base address installed through the verif_set_side_metadata_base hook so that the window is the table slice for the data range used", "operands fit the field width (the code's own assert_value_type)"],
    "level_text": "Bounded symbolic execution (Kani/CBMC) of every SideMetadataSpec accessor on a real 16-byte table window for all widths 1..64 bits, all region sizes 2^0..2^22, all window contents, regions, operands and two-operation histories: each operation returns the previous value of its region's field and changes exactly that field (whole-window frame condition against a bit-string reference model).",
    "level_note": "Trusted: Kani/CBMC/cadical, the 15-line bit-string reference model; single-thread semantics of atomics.",
}

PROPS["C21"] = {
    "enc": ["SideMetadataSpec::bzero_metadata", "bset_metadata", "bcopy_metadata_contiguous", "bulk_update_metadata", "zero_meta_bits", "set_meta_bits",
            "ranges::break_bit_range", "memory::zero", "memory::set", "address_to_meta_address", "meta_byte_lshift"],
    "sym": "log_num_of_bits 0..=2 (sub-byte harnesses) and 3..=6 (whole-byte harnesses), log_bytes_in_region 0..=22, spec offset < 2^40, first region and region count anywhere in a 24-byte (192-bit) table slice "
           "(empty, inside one byte, unaligned both ends, aligned, ending at a byte boundary), all 48 window bytes (destination slice + source slice for bcopy)",
    "bound": "Ranges of up to 192 one-bit fields / 24 metadata bytes; unwind 194 with unwinding assertions. 64-bit contiguous layout.",
    "outside": "ranges longer than 24 metadata bytes (the middle part is one memset/memcpy of the whole-byte run); 32-bit chunked branch (not compiled)",
    "assumptions": COMMON_ASSUME + ["E1 base address through the hook", "start and size are region-aligned data ranges (documented)", "bcopy: both specs have equal width and region size (its debug assertions)"],
    "level_text": "Bounded symbolic execution (Kani/CBMC) of the real bulk zero/set/copy paths for all widths and region sizes over every region range inside a 24-byte table slice with arbitrary contents: every field inside the range gets 0 / all-ones / the source field and every bit outside (including the rest of the window) is unchanged, compared bit by bit.",
    "level_note": "Trusted: Kani/CBMC/cadical and the per-bit oracle loop.",
}

PROPS["C26"] = {
    "enc": ["FreeList::alloc", "alloc_from_unit", "free", "size", "initialize_heap", "add_to_free", "__alloc", "__split", "__coalesce", "__remove_from_free",
            "get/set_next/prev/size/free", "get_left", "get_right", "is_coalescable", "set_uncoalescable", "IntArrayFreeList::{new, from_parent, table, table_mut}"],
    "sym": "single list (6 or 3 units, one initial run): 3 operations, each alloc(n in 1..=6) or free(any live run), then free-all and re-allocate; "
           "single 5-unit list with uncoalescable boundaries: 3 operations out of alloc(n), free(run), set_uncoalescable(first unit of a run)",
    "bound": "Single-head lists of <= 6 units, histories of 3 operations (+ free-all epilogue; thorough: 4 units, 4 operations); unwind 8 with unwinding assertions. After every operation the real table is walked and must tile [0,units) consistently with the harness's live-run map.",
    "outside": "child lists sharing a parent table (from_parent) and alloc_from_unit: their harness exhausts 16 GB even for 4 units / 2 operations (kept as work in progress, not claimed); longer lists/histories; RawMemoryFreeList (C27, not applicable) shares every FreeList default method checked here",
    "assumptions": COMMON_ASSUME + ["free is called on live runs only (its debug assertion)", "set_uncoalescable is applied to the first unit of a run (as Map64 does)"],
    "level_text": "Bounded symbolic execution (Kani/CBMC) of the real free-list code over every 3-operation history on single-head lists of <= 6 units (with and without uncoalescable boundaries): allocated runs disjoint and in range, size() exact, alloc fails only without a fitting free run, the table always tiles the list consistently with the live runs, free runs fully coalesce, and freeing everything restores one allocatable run.",
    "level_note": "Trusted: Kani/CBMC/cadical and the ghost live-run map of the harness.",
}

PROPS["C31"] = {
    "enc": ["SFTSpaceMap::new", "has_sft_entry", "SFTSparseChunkMap::has_sft_entry (table bound, hook verif_without_table)", "addr_to_index", "index_to_space_range", "Map64::new", "insert", "get_descriptor_for_address", "space_index", "is_space_start",
            "SpaceDescriptor::create_descriptor_from_heap_range/get_index", "VMLayout::new_64bit"],
    "sym": "address over the full 0..=usize::MAX; inserted space index 1..=15 and extent",
    "bound": "Index arithmetic only, default 64-bit layout: no loop over addresses (symbolic), one inserted space.",
    "outside": "table contents of the SFT maps (SFTRefStorage = portable_atomic::AtomicU128, inline asm, not executable by Kani), SFTDenseChunkMap, SFTSparseChunkMap beyond its entry test (update/set/get), is_in_mmtk_spaces end-to-end (needs live spaces)",
    "assumptions": COMMON_ASSUME + ["default 64-bit VMLayout"],
    "level_text": "Bounded symbolic execution (Kani/CBMC) of the real SFT space-map and Map64 index arithmetic for every 64-bit address: a lookup that passes has_sft_entry indexes inside the table, entries cover exactly spaces 1..=15, Map64::get_descriptor_for_address answers every address without panicking with the inserted descriptor or UNINITIALIZED, and both maps agree on the space index; the sparse chunk map reports an entry exactly for addresses whose chunk index is inside the table new() allocates.",
    "level_note": "Kernel-level claim: index agreement and totality, not table contents.",
}

PROPS["C35"] = {
    "enc": ["mi_bin", "mi_bin_from_size", "mi_wsize_from_size", "new_empty_block_lists (real table via hook)", "get_maximum_aligned_size", "align_allocation_no_fill"],
    "sym": "size 0..=MAX_BIN_SIZE (symbolic, not enumerated), alignment 2^k in the VM's range, cell address (any word-aligned), offset; a second size for monotonicity; table index",
    "bound": "All sizes and alignments for VmA (MIN 8/MAX 8) and VmB (MIN 4/MAX 64); thorough adds VmC (8/4096) and VmD (16/256); the 49-entry table is the real one.",
    "outside": "FreeListAllocator::init_block (needs a MarkSweepSpace with a page resource): the fresh-block cell list is not checked",
    "assumptions": COMMON_ASSUME + ["padded request <= MAX_BIN_SIZE (larger requests go to the large object space)", "cells are aligned to max(8, MIN_ALIGNMENT): block start + i * cell size with the cell size checked to be a multiple of MIN_ALIGNMENT"],
    "level_text": "Bounded symbolic execution (Kani/CBMC) of the real size-class selection against the real table for every request size up to MAX_BIN_SIZE and every legal alignment: the bin is valid, its cell holds the worst-case padded request and the object as align_allocation places it, it is the smallest such class, bins are monotone in size, table sizes strictly increase.",
    "level_note": "init_block's free-list construction is outside the claim.",
}

PROPS["C38"] = {
    "enc": ["MemBalancerTrigger::compute_new_heap_limit", "on_pending_allocation", "get_current_heap_size_in_pages", "get_max_heap_size_in_pages", "can_heap_size_grow", "access_stats"],
    "sym": "min <= max < 2^40 pages; live, extra_reserve, pending < 2^40; the four statistics and the four optional smoothing values as arbitrary IEEE doubles (NaN, infinities, zeros, negatives, each Some or None)",
    "bound": "One computation from an arbitrary smoothing state (inductive step: the state a collection leaves behind is itself among the arbitrary states, and the heap size does not feed back). Harness (a) runs with Rust overflow checks off (release semantics), harness (b) with all checks on inside a physical envelope.",
    "outside": "on_gc_start/release/end themselves (need &'static MMTK and Instant::now): the claim is the limit computation they funnel into; FixedHeapSizeTrigger (a constant)",
    "assumptions": COMMON_ASSUME + ["min <= max (GCTriggerSelector::validate)", "page counts < 2^40", "(b) only: finite non-negative statistics, allocation rate <= 2^30 pages/s, collection rate >= 1 page/s"],
    "level_text": "Bounded symbolic execution (Kani/CBMC, IEEE-754 float encoding) of the real MemBalancer limit computation with every statistic an arbitrary double: after a collection from any smoothing state the reported heap size is within [min, max]; inside a physical envelope the page sum additionally cannot overflow.",
    "level_note": "CBMC's float-specific NaN/overflow side checks are ignored (not Rust semantics).",
}

PROPS["C17"] = {
    "enc": ["attempt_to_forward", "spin_and_get_forwarded_object", "forward_object", "get_forwarding_status", "read_forwarding_pointer", "write_forwarding_pointer",
            "forwarding_bits_offset_in_forwarding_pointer", "MetadataSpec::{load_atomic, store_atomic, compare_exchange_metadata}", "HeaderMetadataSpec / SideMetadataSpec accessors underneath"],
    "sym": "initial forwarding state (00 / 10 held by another tracer / 11 with any pointer), all 64 object bytes (and 16 side-table bytes), the new copy address, the other tracer's copy address, and at every atomic access of the protocol whether and how another tracer interferes",
    "bound": "Interference budget: other tracers win the race at most twice; a tracer holding BEING_FORWARDED publishes or clears within 2 further steps (progress assumption, needed for the spin loop to be bounded); unwind 8 with unwinding assertions. Three placements: bits+pointer in one header word, bits in a separate header byte, bits on the side (shared byte).",
    "outside": "unbounded interference / fairness (the protocol is lock-free, not wait-free); weak-memory reordering (SC atomics); the N-thread composition argument (one thread vs. environment composes because the environment is exactly the rely relation) is a paper argument, not a solver result; the actual object copy (ObjectModel::copy is a harness stub counting calls)",
    "assumptions": COMMON_ASSUME + ["H9: env_step runs before every atomic metadata access; rely relation R = {00->10, 10->11 with pointer, 10->00}, never while this thread holds 10, never from 11", "object addresses are non-null, 8-aligned and below 2^56 (the forwarding-word mask)"],
    "level_text": "Bounded symbolic execution (Kani/CBMC) of the real forwarding protocol against symbolic interference injected before every atomic access (other tracers racing on the same object, as solver variables): the thread copies iff its own CAS moved 00->10, copies exactly once, publishes its copy; a thread that did not win never copies and returns exactly the pointer the winner published (or the original object if the winner declined); late tracers agree.",
    "level_note": "Interleavings are encoded as rely-relation interference at the atomic-access hook points; SC atomics; budgeted interference.",
}

PROPS["C18"] = {
    "enc": ["MarkState::test_and_mark", "LargeObjectSpace::test_and_mark (hook verif_test_and_mark)", "ObjectBarrier::log_object", "VMLocalPinningBitSpec::{pin_object, unpin_object}", "MetadataSpec::{load_atomic, compare_exchange_metadata}",
            "HeaderMetadataSpec::compare_exchange (sub-byte path)", "SideMetadataSpec::compare_exchange_atomic (sub-byte path)"],
    "sym": "all object/side-table bytes, object index within the shared side byte (0..=7), and at every atomic access whether another thread performs the same transition and which value it leaves in every other bit of the same byte",
    "bound": "At most 3 interfering steps per operation; unwind 6 with unwinding assertions; side placement (8 objects per byte) and in-header placement (field next to five other fields) for mark and log; pin/unpin with feature object_pinning; the large-object 2-bit mark/nursery field on the side (per page, 4 pages per byte) and in the header, nursery and full-heap collection, both mark states.",
    "outside": "ImmixSpace::attempt_mark (needs a space object); unbounded interference; weak memory; the N-thread counting argument",
    "assumptions": COMMON_ASSUME + ["H9 interference hook; rely: another thread may perform the same transition once and may rewrite all other bits of the byte arbitrarily", "nobody reverts the field during the operation"],
    "level_text": "Bounded symbolic execution (Kani/CBMC) of the real mark / log / pin transitions against symbolic interference on the same byte: the operation reports success iff this thread's own CAS performed the transition, reports failure only if the field was already transitioned, leaves the field transitioned, and never writes stale neighbouring bits.",
    "level_note": "Same encoding and limits as C17.",
}

PROPS["C22"] = {
    "enc": ["SideMetadataSpec::find_prev_non_zero_value", "find_prev_non_zero_value_fast", "find_prev_non_zero_value_simple", "find_next_non_zero_value (+_fast, +_simple)", "scan_non_zero_values (+_fast, +_simple)", "scan_non_zero_bits_in_metadata_bytes/bits/word",
            "find_last/first_non_zero_bit_in_metadata_bytes/bits", "find_last/first_non_zero_bit", "align_metadata_address", "contiguous_meta_address_to_address", "ranges::break_bit_range"],
    "sym": "all bytes of a 3-byte table slice (24 one-bit regions of 8 bytes: the VO-bit shape; thorough tier: 9 bytes = one aligned word + tail byte, and 2/4/8-bit fields with region sizes 2^0..2^6), data address anywhere in the slice's data range including unaligned, search limit / scan range, mapped/unmapped",
    "bound": "Quick: 3-byte table window (24 regions), unwind 26 (+ per-loop bounds) with unwinding assertions: byte and bit paths of find_prev / find_next / scan.  Thorough: 9-byte window (word-at-a-time path, unwind 74) for find_prev / find_next, and multi-bit specs on 3 bytes.",
    "outside": "windows above 9 bytes (16 bytes did not finish in 15 min); scan on the 9-byte window and on multi-bit specs (memory); searches that leave the window; metadata mapped for only part of the range",
    "assumptions": COMMON_ASSUME + ["E1 base hook; E2: Address::load redirected to a static 64-byte buffer (array read); E3: Address::is_mapped answers from harness ranges (data range and table both mapped, or both unmapped)", "search range stays inside the window; scan ranges are region aligned"],
    "level_text": "Bounded symbolic execution (Kani/CBMC) of the real find_prev / find_next / scan entry points (fast paths plus the in-code naive cross-check) on a small bitmap with arbitrary contents, start address (aligned or not) and limit, compared with an independent region-by-region oracle: same result, same visited regions in ascending order, once each.",
    "level_note": "Small windows; the spec shape is concrete per harness (a symbolic-but-constrained shape cost 60x more).",
}

PROPS["C24"] = {
    "enc": ["spec_defs::* constants (list regenerated from the source each run)", "side_metadata_offset_after", "SideMetadataSpec::upper_bound_offset", "metadata_address_range_size", "VM*Spec::{side_first, side_after, in_header}",
            "set_vm_side_metadata_specs", "side_metadata_reserved_bytes", "total_side_metadata_bytes"],
    "sym": "for each of the six VM specs: in header or on the side; declaration order of the side-resident local specs (symbolic permutation)",
    "bound": "The whole finite placement space of the VM specs as solver variables; superset of all core specs (every plan's active set is a subset). 64-bit layout, default features.",
    "outside": "per-plan spec sets are not read back from created plans (needs a live MMTK): the superset is checked instead, with one source-checked exemption (VM global spec vs. the two MallocSpace-only local specs, which no plan combines); 32-bit chunked layout",
    "assumptions": COMMON_ASSUME + ["MarkSweep/MallocSpace sources do not mention the VM global log-bit spec (checked textually on every run; otherwise the exemption is dropped)", "mmap granularity 4 MiB (harness Mmapper)"],
    "level_text": "Bounded symbolic execution (Kani/CBMC) over every VM side-metadata placement (in-header/side, any declaration order): all side specs any configuration can combine are pairwise disjoint as [offset, offset+range) and lie inside the reserved side-metadata range computed by the real layout code.",
    "level_note": "Superset formulation; see outside-the-claim.",
}

PROPS["C34"] = {
    "enc": ["ImmixSpace::get_next_available_lines", "Block::line_mark_table", "MetadataByteArrayRef::{new, get}", "Line::{get_index_within_block, next_nth, block, mark_lines_for_object, mark, is_marked}", "BlockState <-> u8 conversions"],
    "sym": "all 32 line-mark bytes of a block, current and unavailable line state independently in 1..=127, search start line; object start/size within the block; every byte value for BlockState",
    "bound": "One block of 32 lines (cargo feature immix_smaller_block: same code, smaller constant); unwind 34 with unwinding assertions. The two states are independent symbolic values, which covers every pair any GC history can produce, including after the 127->1 wrap.",
    "outside": "the state update itself (line_mark_state increment/reset in ImmixSpace::prepare, copy to line_unavail_state in release) sits in functions that need a scheduler; Block::sweep; the default 128-line block (same code; did not finish within the cap)",
    "assumptions": COMMON_ASSUME + ["E1 base hook", "verif_hole_search stores the two state bytes into a zeroed space object (the search reads nothing else from the space)"],
    "level_text": "Bounded symbolic execution (Kani/CBMC) of the real Immix hole search for every line-mark table of a 32-line block and every pair of line states: the returned hole is the first maximal run of lines marked neither in the current nor the last full collection; mark_lines_for_object marks exactly the spanned lines; BlockState round-trips through its byte.",
    "level_note": "Kernel-level claim for every state pair; the GC-history state machine is outside.",
}

PROPS["C08"] = {
    "enc": ["vo_bit::is_vo_bit_set_for_addr", "is_vo_bit_set_inner", "get_object_ref_for_vo_addr", "vo_bit::find_object_from_internal_pointer", "is_internal_ptr_from_vo_bit", "is_internal_ptr", "is_vo_addr", "get_raw_vo_bit_word",
            "SideMetadataSpec::{is_mapped, load_atomic, load, load_raw_word, find_prev_non_zero_value (+_fast, +_simple)}", "ObjectReference::to_object_start",
            "<LargeObjectSpace<VmB> as SFT>::find_object_from_internal_pointer (through the verif_find_object_from_internal_pointer hook)", "Address::{align_down, saturating_sub, is_mapped}"],
    "sym": "non-LOS: a 3-byte VO bitmap (24 words = 192 heap bytes) holding one or two non-overlapping objects with symbolic start word and size (2..=24 words), mapped/unmapped; query: any word-aligned address (is_object) / any byte address and any search limit that stays inside the window (internal pointer). "
           "LOS: sizes of up to two page-aligned large objects (16 bytes .. 3 pages, word multiples) and the search limit (1 .. 3 pages) symbolic; object layout (7), page of the pointer (3) and its offset inside the page ({0, 8, 9, 4095}) concrete: 21 harnesses x 4 offsets",
    "bound": "non-LOS: 192 bytes of heap, <= 2 objects, VmA (object reference == object start); unwind 26 (+ per-loop bound 5 on the byte loop). LOS: three heap pages above three empty guard pages, <= 2 large objects, VmB (reference = object start + 8), E2 window = the first VO-bit word of each page (the only one the search reads); unwind 10. Unwinding assertions on; feature vo_bit.",
    "outside": "the space-level dispatch (SFT_MAP.get_checked(addr).is_mmtk_object / find_object_from_internal_pointer on each space); heaps larger than the windows; the word-at-a-time path of the underlying search (see C22); LOS pointer offsets other than the four listed and objects of more than three pages; "
               "LOS objects whose reference is not in the first 512 bytes of their first page (asserted by the space when it sets the VO bit)",
    "assumptions": COMMON_ASSUME + ["E1 base hook, E2 window loads (internal-pointer harnesses), E3 mapped predicate: heap range and VO table both mapped or both unmapped", "the VO bitmap is consistent with the object table: a bit is set exactly at each object's reference",
                                    "objects do not overlap, are word aligned and at least two words; large objects start at page boundaries and own whole pages", "the LOS method reads no field of the space (the hook calls it on an uninitialised receiver)"],
    "level_text": "Bounded symbolic execution (Kani/CBMC) of the real VO-bit lookup kernels on a 192-byte heap window with one or two symbolic objects: a word-aligned address is reported as an object iff it is an object reference; an interior pointer resolves to the object that contains it iff that object's reference is within the search limit, and to nothing otherwise; unmapped addresses yield None without touching memory. "
                  "And of the real large-object page-wise search for every size of up to two large objects in a three-page heap and every search limit, over 7 layouts x 3 pointer pages x 4 pointer offsets: interior pointers within the limit resolve to their object, whatever is returned holds the pointer in its allocation, pointers outside every allocation resolve to nothing. "
                  "The letter of the property on the two LOS boundaries (pointer below the reference; reference exactly n or more below) is checked in four further harnesses and fails on the tree as given: known findings F10, F11.",
    "level_note": "Kernel-level claim (VO-bit lookups and the LOS page search); the per-space dispatch is outside. KNOWN-FINDING lines F10/F11 are expected on the unchanged tree.",
}

PROPS["C27"] = {
    "enc": ["RawMemoryFreeList::new", "grow_freelist", "grow_list_by_blocks", "raise_high_water", "current_capacity", "units_per_block", "size_in_pages", "mmap",
            "FreeList::{alloc, __alloc, __split, set_sentinel, set_size, add_to_free, get/set_next/prev/free}", "RawMemoryFreeList::alloc"],
    "sym": "pages_per_block in {1, 2} and every table access value; unit count, grain (whole list / half) and growth schedule (one step / two steps) are concrete per harness: 10 unit counts around the page boundaries (6, 510, 511, 512, 600, 1022, 1023, 1024, 1100, 1534) x up to 3 schedules = 26 harnesses",
    "bound": "Tables of <= 3 pages, heads = 1; limit = base + pages(size_in_pages) as Map64::create_parent_freelist computes it; unwind 6.  Unit count and grain had to be concrete: with symbolic values every index into the 3072-entry table is symbolic and the query exhausts 16 GB (and 44 GB).",
    "outside": "other unit counts, heads > 1, more than two growth steps, tables above 3 pages",
    "assumptions": COMMON_ASSUME + ["E5: OS::dzmmap stubbed to record (start, bytes) and succeed", "E2: RawMemoryFreeList::{get_entry, set_entry} (the only table accesses) redirected to a typed static array with a bound check against the bytes mapped so far; natively the real slice over the real buffer is used"],
    "level_text": "Bounded symbolic execution (Kani/CBMC) of the real RawMemoryFreeList growth path for 26 (unit count, grain, schedule) configurations around the page boundaries with symbolic block size: growth up to the configured maximum succeeds, beyond it is refused, every mapping is inside [base, limit) and contiguous, table accesses stay inside the mapped table, and every grown grain can be allocated exactly once.",
    "level_note": "Configuration-list bound (see outside-the-claim): weaker than the other claims, stated as such; found F3 and F3b.",
}

PROPS["C28"] = {
    "enc": ["MonotonePageResource::new_contiguous", "alloc_pages", "reset", "release_pages", "reset_cursor", "cursor", "PageResource::{get_new_pages, reserve_pages, clear_request, commit_pages, reserved_pages, committed_pages}",
            "CommonPageResource::new", "PageAccounting::{reserve, commit, clear_reserved, reset, reserve_and_commit, get_reserved_pages, get_committed_pages}", "std::sync::Mutex (single thread)"],
    "sym": "space start (chunk aligned, any address below 2^46), 1..=3 chunks; history of 4 acquire-shaped steps: reserve r in 1..=2048 pages, then request a >= r pages or give the reservation up; the new top for reset_cursor",
    "bound": "Monotone page resource of a contiguous space, <= 3 chunks, <= 4 steps + reset; single thread; unwind 6.",
    "outside": "FreeListPageResource (RawMemoryFreeList table / Map64: see C27), BlockPageResource (BlockPool, DESIGN P17), discontiguous growth through VM_MAP/grow_discontiguous_space, multi-threaded histories, the VMMap object (a harness stub that is never called on this path)",
    "assumptions": COMMON_ASSUME + ["requests ask for at least what was reserved (commit_pages accounts the difference; Space::acquire asks for exactly the reservation)", "a failed request is followed by clear_request (as Space::acquire does)"],
    "level_text": "Bounded symbolic execution (Kani/CBMC) of the real monotone page resource and page accounting over every 4-step reserve/allocate/give-up history on a contiguous space of up to 3 chunks at a symbolic address: grants are page aligned, consecutive (hence disjoint) and inside the space, a request fails only when it does not fit, reserved == committed == pages granted at quiescence, and reset / reset_cursor restore exactly the documented state.",
    "level_note": "Monotone + accounting only; the other page resources are outside the claim.",
}

PROPS["C10"] = {
    "enc": ["Allocator::alloc_with_options", "alloc_slow", "alloc_slow_inline", "out_of_memory", "handle_obvious_oom_request", "reset_allocation_state", "AllocatorContext::{set_alloc_options, clear_alloc_options, get_alloc_options}",
            "GCTrigger::will_oom_on_alloc (with a harness GCTriggerPolicy)", "GlobalState::{is_emergency_collection, allocation_success, is_initialized}", "Options::is_stress_test_gc_enabled"],
    "sym": "the three allocation options; the emergency / allocation-success flags left by earlier requests; per attempt: success or failure, and (at a safepoint) whether the collection blocked for was an emergency collection; up to 4 attempts; obvious-OOM harness: request size (any usize) and maximum heap size (0..2^30 pages) with size > maximum heap",
    "bound": "The allocator trait's retry loop on a harness allocator whose alloc_slow_once plays Space::acquire (returns memory or fails; on failure at a safepoint counts a collection) and, in the obvious-OOM harness, first asks the real handle_obvious_oom_request as BumpAllocator::acquire_block and LargeObjectAllocator::alloc_slow_once do; requests resolved within 4 attempts; stress testing off; unwind 6.",
    "outside": "Space::acquire / poll / block_for_gc themselves (need a space with a page resource and a live GC trigger), allow_overcommit (decided inside Space::acquire), stress-test paths, more than 4 attempts, the real allocators' own alloc_slow_once",
    "assumptions": COMMON_ASSUME + ["AllocatorContext from the verif_new hook: zero-initialised GlobalState and GCTrigger (only atomic flags are read; the trigger's policy is a harness object installed by verif_set_trigger_policy that answers get_max_heap_size_in_pages), Options zero except stress_factor / analysis_factor / precise_stress at their defaults",
                                    "alloc_slow_once_traced (two USDT probes around alloc_slow_once: inline asm) overridden by the plain call", "the harness allocator models Space::acquire: a failed attempt at a safepoint has blocked for one collection"],
    "level_text": "Bounded symbolic execution (Kani/CBMC) of the real allocation retry loop for every combination of allocation options, every pre-existing emergency/success flag state and every <= 4-attempt outcome script: out_of_memory is called only if allow_oom_call, only after a collection was attempted for the request and the retry after it failed too, at most once, and the request then returns null; without a safepoint a failed attempt returns null at once; "
                  "a request larger than the maximum heap (real handle_obvious_oom_request / will_oom_on_alloc, every size and heap size) fails immediately for every option combination: one attempt, no collection, the call-back exactly when allowed; the per-request state and the options are reset afterwards.",
    "level_note": "Retry-loop kernel only; found F6 and F12.",
}

NOT_APPLICABLE = {}
_L = ("observable only on a live collector (MMTK instance, mmap'd heap, OS worker threads, VM call-backs); Kani has no thread/FFI model and a "
      "whole collection is outside any unwinding bound; the bit-level kernels are decided under ")
NOT_APPLICABLE.update({
    "C01": _L + "C17, C18, C20-C23, C37",
    "C02": _L + "C26, C28, C34, C35",
    "C03": _L + "C33, C35",
    "C04": _L + "C17, C18",
    "C05": _L + "C18",
    "C06": _L + "none (ReferenceProcessor state is Mutex<HashSet/Vec>; hashbrown does not encode, DESIGN P10)",
    "C07": _L + "C22, C08",
    "C09": _L + "C28",
    "C11": _L + "none (scheduler-thread property)",
    "C12": _L + "none (mutators against concurrent marking packets)",
    "C13": _L + "none (sentinel rescheduling inside the work-bucket machinery)",
    "C14": "schedules over Mutex/Condvar parking; Kani has no thread model and the interference encoding used for C17/C18 needs lock-free single-word protocols",
    "C15": "same as C14: bucket open conditions are closures over scheduler state evaluated by the last parked worker thread",
    "C16": "same as C14: thread exit/respawn through VMCollection::spawn_gc_thread",
    "C19": "DESIGN P17: a 6-call sequential history on BlockPool::new(2) costs 295 s / 22 GB in CBMC (boxed 256-entry MaybeUninit arrays, Vec, spin::RwLock); the overflow path needs >=257 pushes and the real quantifier is threads",
    "C30": "DESIGN P18: each touched slab of TwoLevelStateStorage is an 8192-entry array built by array::from_fn; one ensure_mapped across a slab boundary exhausted 24 GB. Retried in the build phase with the address space shrunk to 16 chunks (4 slabs x 4 chunks) under the guard (hook 2a9d7e5, harness c30_mmapper.rs, tier=wip): a fresh mmapper and one ensure_mapped over <= 2 chunks still does not finish symbolic execution in 800 s (about one second per Flatten::next over the slab slices: pointer-validity case splits on slices of boxed arrays reached through a Vec), so no bound small enough to be decided says anything about the property",
    "C36": "TreadMill is four hashbrown HashSets behind a Mutex; DESIGN P10: two inserts and a remove do not finish symbolic execution in 400 s even with concrete keys",
    "C39": "DESIGN P11: 3 symbolic bytes through to_lowercase/parse/format! exceed 420 s; GCTriggerSelector::from_str compiles two regex::Regex",
})
# Planned in DESIGN.md section 3 but not claimed (reasons measured or stated in DESIGN.md section 8.6).
NOT_APPLICABLE.update({
    "C29": "Map32 keeps two Vec<i32> link tables, a descriptor Vec and two IntArrayFreeLists behind a Mutex and calls the global SFT_MAP (InitializeOnce<Box<dyn SFTMap>>, AtomicU128 entries: inline asm not executable by Kani) on every free; the free-list component alone is at the memory limit for 6 units / 3 operations (C26), so histories over the composed structure are out of reach",
})
