"""Per-property metadata used by ./check for MANIFEST.json and the evidence files.
The harnesses themselves are discovered from harness/src/cNN_*.rs."""

HOOKS = {
    "guard": "--cfg mmtk_verif",
    "enable": "RUSTFLAGS='--cfg mmtk_verif' (set by /verif/check for cargo kani and for the native replayer); all hooks are add-only re-exports/constructors/accessors under #[cfg(mmtk_verif)]",
    "baseline_off_cmd": "cd /repo && cargo test --workspace --no-fail-fast --offline",
    "source_commits": ["6f482cd", "6074715", "0599ef3"],
    "add_only": True,
}

NOTES = ("Technique: solver-based checking of the real code. Every claimed property is decided by Kani/CBMC harnesses that "
         "symbolically execute the compiled mmtk-core functions; bounds and everything outside them are stated per property in "
         "DESIGN.md and in each evidence file. Exit 2 = inconclusive (never reported as held). Known findings / fixed defects: "
         "/verif/known_findings.json (read-only at run time; 'fixed' entries suppress nothing). Repaired in /repo: b72becc "
         "'fix: header metadata compare_exchange returns the field's previous value' (C23), abe3802 'fix: side-metadata overlap check measures each spec's range from its own start' (C25); see DESIGN.md section 6.")

COMMON_ASSUME = [
    "x86-64 Linux, 64-bit layout; dev-profile semantics under Kani (debug assertions and overflow checks on)",
    "sequentially consistent single-thread execution of atomics",
    "trusted: Kani 0.68, CBMC 6.11, cadical, rustc, harness oracles",
]

PROPS = {}

PROPS["C23"] = {
    "enc": ["HeaderMetadataSpec::load", "load_atomic", "store", "store_atomic", "compare_exchange", "fetch_add", "fetch_sub",
            "fetch_and", "fetch_or", "fetch_update", "get_shift_and_mask_for_bits", "get_bits_from_u8", "set_bits_to_u8",
            "MetadataValue impls for u8/u16/u32/u64/usize", "Address::{load,store,atomic_load,compare_exchange,as_ref}"],
    "sym": "bit_offset in [-64,64); num_of_bits 1..=7 not straddling a byte, or the width of T in {u8,u16,u32,u64,usize} naturally aligned; "
           "optional mask (any value) for byte-or-wider load/store/CAS; operand/old/new values; all 24 bytes of a 3-word header buffer",
    "bound": "One operation from an arbitrary header state (inductive step; the oracle is a full frame condition over all 24 bytes, "
             "so histories follow by induction). Real buffer, no stubs.",
    "outside": "bit offsets outside [-64,64); concurrent interleavings (see C18)",
    "assumptions": COMMON_ASSUME + ["spec satisfies the code's own assert_spec preconditions", "values fit the field width", "masked CAS: old/new lie inside the mask"],
    "level_text": "Bounded symbolic execution (Kani/CBMC) of every HeaderMetadataSpec accessor over all bit offsets in [-64,64), all widths, all header contents and operand values: returned value and full 24-byte frame compared against a bit-string reference model. Within that bound the verdict covers every input; not a proof beyond it.",
    "level_note": "Trusted: Kani/CBMC/cadical, the 20-line bit-string reference model; single-threaded semantics of the atomics.",
}

PROPS["C33"] = {
    "enc": ["align_allocation", "align_allocation_no_fill", "align_allocation_inner", "fill_alignment_gap", "get_maximum_aligned_size",
            "get_maximum_aligned_size_inner", "raw_align_up", "raw_align_down", "raw_is_aligned", "rshift_align_up", "bytes_to_pages_up",
            "pages_to_bytes", "bytes_to_chunks_up", "chunk_align_up", "chunk_align_down", "page_align_down", "is_page_aligned",
            "address_to_chunk_index", "chunk_index_to_address", "Address::{align_up,align_down,is_aligned_to}"],
    "sym": "full 64-bit region/val/num/bytes; alignment = 1<<k with k symbolic in [log MIN_ALIGNMENT, log MAX_ALIGNMENT] (0..=63 for the raw helpers); "
           "known_alignment = 1<<k in [MIN, 4096]; offset any multiple of the known alignment below 2^63; shift bits 0..=63; "
           "fill variant: region at any 4-byte step of a real 192-byte buffer",
    "bound": "Loop-free code at full width: no bound on values. Instantiations VmA (MIN 8/MAX 8), VmB (MIN 4/MAX 64, fill 0xab), VmC (MIN 8/MAX 4096). "
             "Gap filling is checked on a 192-byte buffer (gaps up to 63 bytes = every gap VmB can produce).",
    "outside": "inputs whose result would overflow usize (the property excludes them); offset >= 2^63 (its negation as isize overflows in the dev profile); other VM alignment constants",
    "assumptions": COMMON_ASSUME + ["alignment is a power of two within the VM's [MIN_ALIGNMENT, MAX_ALIGNMENT]", "region and offset are multiples of the known alignment (the function's debug assertions / meaning of known_alignment)",
                                    "region <= usize::MAX - MAX_ALIGNMENT, val + align - 1 does not overflow, offset < 2^63"],
    "level_text": "Bounded symbolic execution (Kani/CBMC) of the alignment and rounding functions at full 64-bit width with symbolic power-of-two alignments: results compared with the arithmetic specification (multiple-of, least/greatest, gap < alignment, gap + size <= get_maximum_aligned_size), gap filling compared byte by byte on a real buffer. Loop-free code, so within the stated preconditions the verdict covers every input for the three VM instantiations.",
    "level_note": "Trusted: Kani/CBMC/cadical and the mask-form arithmetic oracles; VM constants limited to the three instantiations.",
}

PROPS["C32"] = {
    "enc": ["SpaceDescriptor::create_descriptor_from_heap_range", "get_start", "get_start_32", "get_extent", "get_extent_32", "is_contiguous",
            "is_contiguous_hi", "is_empty", "get_index", "create_descriptor", "vm_layout (layout installed by the verif_set_vm_layout hook, validated by VMLayout::validate)"],
    "sym": "32-bit encoding: heap_start < heap_end <= 2^32 chunk-aligned, start chunk-aligned in (0, 2^32), chunks 1..=1023, a second independent range for injectivity; "
           "64-bit encoding: space index 1..=16, chunk count up to the space extent; three successive discontiguous descriptors",
    "bound": "All (start, chunk count) pairs the 32-bit encoding admits (mantissa loop <= 14 iterations, unwind 16 with unwinding assertion); default 64-bit layout for the contiguous encoding; 3 create_descriptor calls from the initial counter.",
    "outside": "start >= 2^32 in the 32-bit encoding (the FIXME in the source says the encoding does not cover it); discontiguous counter values beyond the first three",
    "assumptions": COMMON_ASSUME + ["layout satisfies VMLayout::validate", "start non-zero and chunk aligned, 0 < chunks < 1024 (the function's debug assertion)"],
    "level_text": "Bounded symbolic execution (Kani/CBMC) of the real SpaceDescriptor encode/decode functions over every chunk-aligned (start, chunk count) the 32-bit encoding admits, with symbolic heap bounds: start, extent, contiguity and top-of-heap flag round-trip, and distinct ranges get distinct descriptors; 64-bit contiguous encoding over all 16 space indices; discontiguous descriptors distinct and non-contiguous.",
    "level_note": "Trusted: Kani/CBMC/cadical; the verif_set_vm_layout hook installs the layout (validated by the real validate()).",
}

PROPS["C25"] = {
    "enc": ["sanity::verify_no_overlap_contiguous", "sanity::verify_global_specs", "sanity::verify_global_specs_total_size", "metadata_address_range_size",
            "log_data_meta_ratio", "SideMetadataSpec::get_starting_address", "global_side_metadata_base_address (OnceLock set by the verif hook)"],
    "sym": "runtime base address < 2^46; per spec: offset < 2^46, log_num_of_bits 0..=6, log_bytes_in_region 0..=22 with data:metadata ratio >= 2; pairs, and 3-element sets for verify_global_specs",
    "bound": "All pairs of specs in those ranges (loop-free predicate); sets of 3 specs for the set-level check (the checker is pairwise, so larger sets repeat the same predicate).",
    "outside": "the HashSet de-duplication in get_all_specs (local-spec path; hashbrown does not encode, DESIGN P10) - the pairwise predicate it feeds is the same function; 32-bit chunked predicate (not compiled on this target)",
    "assumptions": COMMON_ASSUME + ["alloc::fmt::format stubbed to return an empty String (error message text not observed)", "hook leaks the io::Error instead of dropping it",
                                    "offset and base below 2^46, metadata at most half the size of the data it describes (the layout's worst-case-ratio precondition)"],
    "level_text": "Bounded symbolic execution (Kani/CBMC) of the real overlap predicate and set-level check over every pair (and 3-element set) of specs with symbolic offset, width, region size and runtime base: accepted iff the address intervals [start, start+range_size) are pairwise disjoint (two obligations: no false accept, no false reject).",
    "level_note": "Trusted: Kani/CBMC/cadical, the interval-overlap oracle. Found and repaired F2 (repo abe3802).",
}

PROPS["C40"] = {
    "enc": ["RevisitableGroupByForIterator::revisitable_group_by", "RevisitableGroupBy::next", "RevisitableGroup::next",
            "instantiated with I = Copied<slice::Iter<u8>>, K = u8, driven by the verif_group_by hook"],
    "sym": "6 item bytes (item value = low 2 bits), length 0..=6, a symbolic 4-entry key table (= every key function over a 4-value item domain), per-group consumption counts 0..=7",
    "bound": "Sequences of length <= 6 over 4 item values with keys in u8; unwind 8 with unwinding assertions.",
    "outside": "longer sequences, other iterator/key types (the code is generic and does not inspect them)",
    "assumptions": COMMON_ASSUME + ["the key function is pure (a table lookup)"],
    "level_text": "Bounded symbolic execution (Kani/CBMC) of the real group-by iterators over every input sequence of length <= 6 and every key function on a 4-value domain: groups concatenate to the input in order, are non-empty, share the reported key, adjacent keys differ, reported length equals item count; partially or not consumed groups do not disturb the outer iterator.",
    "level_note": "Trusted: Kani/CBMC/cadical and the recording closures of the harness.",
}

PROPS["C20"] = {
    "enc": ["SideMetadataSpec::load", "store", "load_atomic", "store_atomic", "set_zero", "set_zero_atomic", "compare_exchange_atomic", "fetch_add_atomic",
            "fetch_sub_atomic", "fetch_and_atomic", "fetch_or_atomic", "fetch_update_atomic", "fetch_ops_on_bits", "side_metadata_access", "assert_value_type",
            "address_to_meta_address", "address_to_contiguous_meta_address", "meta_byte_lshift", "meta_byte_mask", "MetadataValue impls", "Address::{load,store,atomic_load,compare_exchange}", "std atomics"],
    "sym": "log_num_of_bits 0..=6 (sub-byte widths symbolic inside one harness, one harness per wider type), log_bytes_in_region 0..=22 symbolic, spec offset < 2^40, "
           "all 16 bytes of the metadata window, region index anywhere in the window, byte offset inside the region, operation kind (13 kinds), operands / CAS old+new; two consecutive operations on independently chosen regions",
    "bound": "Metadata window of 16 bytes (128 one-bit fields ... 2 64-bit fields); histories of 2 operations from an arbitrary window state (the frame oracle makes one step inductive; two steps exercise neighbour interference directly); 64-bit contiguous layout.",
    "outside": "the 32-bit chunked layout (helpers_32.rs, not compiled); concurrent interleavings (C18); windows longer than 16 bytes (address arithmetic is shift-only and identical beyond)",
    "assumptions": COMMON_ASSUME + ["E1: side-metadata base address installed through the verif_set_side_metadata_base hook so that the window is the table slice for the data range used", "operands fit the field width (the code's own assert_value_type)"],
    "level_text": "Bounded symbolic execution (Kani/CBMC) of every SideMetadataSpec accessor on a real 16-byte table window for all widths 1..64 bits, all region sizes 2^0..2^22, all window contents, regions, operands and two-operation histories: each operation returns the previous value of its region's field and changes exactly that field (whole-window frame condition against a bit-string reference model).",
    "level_note": "Trusted: Kani/CBMC/cadical, the 15-line bit-string reference model; single-thread semantics of atomics.",
}

PROPS["C21"] = {
    "enc": ["SideMetadataSpec::bzero_metadata", "bset_metadata", "bcopy_metadata_contiguous", "bulk_update_metadata", "zero_meta_bits", "set_meta_bits",
            "ranges::break_bit_range", "memory::zero", "memory::set", "address_to_meta_address", "meta_byte_lshift"],
    "sym": "log_num_of_bits 0..=2 (sub-byte harnesses) and 3..=6 (whole-byte harnesses), log_bytes_in_region 0..=22, spec offset < 2^40, first region and region count anywhere in a 24-byte (192-bit) table slice "
           "(empty, inside one byte, unaligned both ends, aligned, ending at a byte boundary), all 48 window bytes (destination slice + source slice for bcopy)",
    "bound": "Ranges of up to 192 one-bit fields / 24 metadata bytes; unwind 194 with unwinding assertions. 64-bit contiguous layout.",
    "outside": "ranges longer than 24 metadata bytes (the middle part is one memset/memcpy of the whole-byte run); 32-bit chunked branch (not compiled)",
    "assumptions": COMMON_ASSUME + ["E1 base address through the hook", "start and size are region-aligned data ranges (documented)", "bcopy: both specs have equal width and region size (its debug assertions)"],
    "level_text": "Bounded symbolic execution (Kani/CBMC) of the real bulk zero/set/copy paths for all widths and region sizes over every region range inside a 24-byte table slice with arbitrary contents: every field inside the range gets 0 / all-ones / the source field and every bit outside (including the rest of the window) is unchanged, compared bit by bit.",
    "level_note": "Trusted: Kani/CBMC/cadical and the per-bit oracle loop.",
}

NOT_APPLICABLE = {}
_L = ("observable only on a live collector (MMTK instance, mmap'd heap, OS worker threads, VM call-backs); Kani has no thread/FFI model and a "
      "whole collection is outside any unwinding bound; the bit-level kernels are decided under ")
NOT_APPLICABLE.update({
    "C01": _L + "C17, C18, C20-C23, C37",
    "C02": _L + "C26, C28, C34, C35",
    "C03": _L + "C33, C35",
    "C04": _L + "C17, C18",
    "C05": _L + "C18",
    "C06": _L + "none (ReferenceProcessor state is Mutex<HashSet/Vec>; hashbrown does not encode, DESIGN P10)",
    "C07": _L + "C22, C08",
    "C09": _L + "C28",
    "C11": _L + "none (scheduler-thread property)",
    "C12": _L + "none (mutators against concurrent marking packets)",
    "C13": _L + "none (sentinel rescheduling inside the work-bucket machinery)",
    "C14": "schedules over Mutex/Condvar parking; Kani has no thread model and the interference encoding used for C17/C18 needs lock-free single-word protocols",
    "C15": "same as C14: bucket open conditions are closures over scheduler state evaluated by the last parked worker thread",
    "C16": "same as C14: thread exit/respawn through VMCollection::spawn_gc_thread",
    "C19": "DESIGN P17: a 6-call sequential history on BlockPool::new(2) costs 295 s / 22 GB in CBMC (boxed 256-entry MaybeUninit arrays, Vec, spin::RwLock); the overflow path needs >=257 pushes and the real quantifier is threads",
    "C30": "DESIGN P18: each touched slab of TwoLevelStateStorage is an 8192-entry array built by array::from_fn; one ensure_mapped across a slab boundary exhausted 24 GB",
    "C36": "TreadMill is four hashbrown HashSets behind a Mutex; DESIGN P10: two inserts and a remove do not finish symbolic execution in 400 s even with concrete keys",
    "C39": "DESIGN P11: 3 symbolic bytes through to_lowercase/parse/format! exceed 420 s; GCTriggerSelector::from_str compiles two regex::Regex",
})
# Claimed in DESIGN.md but not built yet: listed as not applicable until their check exists.
for _p in ["C08", "C10", "C17", "C18", "C22", "C24", "C26", "C27", "C28", "C29", "C31", "C34", "C35", "C37", "C38"]:
    NOT_APPLICABLE.setdefault(_p, "check planned in DESIGN.md section 3 but not built yet; not claimed until its harnesses are registered")
