#!/bin/bash
# Usage: seedtest.sh <seed-dir> <property> [tier]
# Applies <seed-dir>/patch.diff to /repo, runs the property's check, reverts /repo, prints the outcome.
set -u
SEED="$(realpath $1)"; PROP="$2"; TIER="${3:-quick}"
cd /repo || exit 9
if [ -n "$(git status --porcelain --untracked-files=no)" ]; then echo "REPO-DIRTY: refusing"; exit 9; fi
git apply "$SEED/patch.diff" || { echo "PATCH-DOES-NOT-APPLY"; exit 9; }
cd /verif
VERIF_NO_EVIDENCE=1 ./check "$PROP" --tier "$TIER" > "$SEED/check_${PROP}_${TIER}.log" 2>&1
RC=$?
git -C /repo checkout -- .
echo "seed=$(basename $SEED) property=$PROP tier=$TIER exit=$RC"
grep -E "^VIOLATION|^INCONCLUSIVE|^KNOWN-FINDING|harness=" "$SEED/check_${PROP}_${TIER}.log" | head -8
