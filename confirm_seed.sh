#!/bin/bash
# Usage: confirm_seed.sh <seed-dir>
# Independent confirmation in a scratch worktree: demo passes without the patch, fails with it, and the
# repository's own suite gives the baseline result (only the always-failing sanity test fails) with the patch.
set -u
SEED="$(realpath $1)"; NAME=$(basename "$SEED"); WT=/tmp/cw_$NAME
DEMO=$(python3 -c "import json,sys; print(json.load(open('$SEED/meta.json'))['demo_cmd'])" | sed -E "s#cd /tmp/wt_[A-Za-z0-9_-]+ *&& *##; s#/tmp/wt_[A-Za-z0-9_-]+#$WT#g")
git -C /repo worktree add -q --detach "$WT" HEAD || exit 9
cd "$WT"
OUT="$SEED/confirm.txt"; : > "$OUT"
git apply "$SEED/demo.diff" || { echo "demo.diff does not apply" | tee -a "$OUT"; }
echo "demo_cmd: $DEMO" >> "$OUT"
( eval "$DEMO" ) > /tmp/cw_$NAME.demo0.log 2>&1; R0=$?
echo "demo without patch: exit $R0 ($(grep -E '^test result' /tmp/cw_$NAME.demo0.log | tr '\n' ' '))" >> "$OUT"
git apply "$SEED/patch.diff" || { echo "patch.diff does not apply" | tee -a "$OUT"; }
( eval "$DEMO" ) > /tmp/cw_$NAME.demo1.log 2>&1; R1=$?
echo "demo with patch: exit $R1 ($(grep -E '^test result' /tmp/cw_$NAME.demo1.log | tr '\n' ' '))" >> "$OUT"
git apply -R "$SEED/demo.diff"
cargo test --workspace --no-fail-fast --offline > /tmp/cw_$NAME.suite.log 2>&1
echo "suite with patch (demo removed): $(grep -E '^test result' /tmp/cw_$NAME.suite.log | tr '\n' ' ')" >> "$OUT"
echo "suite failures: $(grep -E '^test .* FAILED' /tmp/cw_$NAME.suite.log | tr '\n' ' ')" >> "$OUT"
if [ $R0 -eq 0 ] && [ $R1 -ne 0 ]; then echo "CONFIRMED" >> "$OUT"; else echo "NOT-CONFIRMED" >> "$OUT"; fi
cd /; git -C /repo worktree remove --force "$WT"; rm -f /tmp/cw_$NAME.*.log
cat "$OUT"
